//! C18 — Distributions are a pure function of current parameters and the RNG seed.
//!
//! Generated: *histories* (see `c18_model.rs`): constructor + 1..=20 operations (thorough 1..=60) out
//! of {individual setter, bulk update} with valid targets on both sides of the current value / interval
//! and invalid targets, interleaved with creation / dropping / sampling of unrelated objects,
//! re-seeding and reproducibility probes. One proptest run per distribution (`hist/<Dist>`), plus the
//! complete grid of all one- and two-mutation histories over every (operation, target class) pair
//! (`grid/<Dist>`), so that one defect cannot hide another.
//!
//! Oracle: parameter model + documented domain predicate. Valid mutation ⇒ no panic; invalid ⇒ panic
//! (model unchanged for setters and one-parameter laws; "unknown but in-domain" + re-synchronisation
//! for a rejected bulk update of a two-parameter law). After every step the object is compared with a
//! twin freshly constructed from the model parameters: pdf/pmf at 9 points, mean, var and — after
//! `alea::set_seed(s)` — 64 samples, all bit-identical (a panic on both sides counts as identical).
//! No tolerances: every comparison is bit-for-bit.

use crate::engine::{decode, par_map, Ctx, Fail, Hx, R};
use crate::props::c18_model::*;
use proptest::prelude::*;
use serde_json::{json, Value};

fn sub_of(kind: &str, dist: u8) -> String {
    format!("{}/{}", kind, DIST_NAMES[dist as usize % N_DIST])
}

fn history_class(st: &Stats) -> String {
    let m = match st.mutations_ok {
        0 => "0",
        1 => "1",
        2..=4 => "2-4",
        5..=9 => "5-9",
        _ => "10+",
    };
    format!(
        "muts={},crossing={},rejected={}{}",
        m,
        if st.crossings > 0 { "y" } else { "n" },
        if st.rejected > 0 || st.ctor_rejected { "y" } else { "n" },
        if st.sampling_unsafe { ",partly-unsampled" } else { "" }
    )
}

fn account(ctx: &mut Ctx, sub: &str, h: &History, res: &Result<Stats, Fail>) {
    let hash = Hx::new().json(h).finish();
    match res {
        Ok(st) => {
            // non-trivial: >= 2 successful mutations, one of which crosses a branch / bound / cached sampler
            let nontrivial = st.mutations_ok >= 2 && st.crossings >= 1;
            ctx.case(sub, &history_class(st), nontrivial, hash);
            for l in &st.labels {
                ctx.label(sub, &format!("has:{}", l));
            }
            if st.resyncs > 0 {
                ctx.label(sub, "has:resync-after-rejected-bulk");
            }
            if st.both_panicked > 0 {
                ctx.label(sub, "has:panic-on-both-sides");
            }
            if st.reproduce_checks > 0 {
                ctx.label(sub, "has:reproduce-check");
            }
        }
        Err(_) => ctx.case(sub, "failed", true, hash),
    }
    ctx.sample(sub, || json!(h));
}

/// A history is a few dozen library calls (well under 10 ms). It runs on a worker thread; if it has not come back
/// after `STALL` it is run once more, and if that attempt does not come back either, some call in it does not
/// terminate (e.g. a rejection sampler whose cached constants no longer belong to its parameters): reported as a
/// violation, because a fresh twin with the same parameters is exactly what the history is compared with and
/// twins are sampled in every other history without trouble. The abandoned workers keep spinning, so after the first
/// report histories of that distribution are skipped (no shrinking of a hanging case).
const STALL: std::time::Duration = std::time::Duration::from_secs(45);
static HUNG: [std::sync::atomic::AtomicBool; 16] = [const { std::sync::atomic::AtomicBool::new(false) }; 16];

fn run_watched(h: &History) -> Option<Result<Stats, Fail>> {
    let (tx, rx) = std::sync::mpsc::channel();
    let hc = h.clone();
    let spawned = std::thread::Builder::new().name("c18-history".into()).spawn(move || {
        let r = crate::engine::catch(std::panic::AssertUnwindSafe(|| run_history(&hc)));
        let _ = tx.send(r);
    });
    if spawned.is_err() {
        return Some(run_history(h));
    }
    match rx.recv_timeout(STALL) {
        Ok(Ok(r)) => Some(r),
        Ok(Err(msg)) => Some(Err(Fail { sig: format!("C18/{}/harness-panic", DIST_NAMES[h.dist as usize % N_DIST]), what: msg })),
        Err(_) => None,
    }
}

fn check_as(ctx: &mut Ctx, kind: &str, h: &History) -> R {
    let sub = sub_of(kind, h.dist);
    let di = h.dist as usize % N_DIST;
    if HUNG[di].load(std::sync::atomic::Ordering::SeqCst) {
        return Ok(());
    }
    let res = match run_watched(h).or_else(|| run_watched(h)) {
        Some(r) => r,
        None => {
            HUNG[di].store(true, std::sync::atomic::Ordering::SeqCst);
            Err(Fail {
                sig: format!("C18/{}/hang", DIST_NAMES[di]),
                what: format!(
                    "{}: a history of valid and rejected parameter changes did not finish within {} s, twice (a history is a few dozen calls): some call on the object or its twin does not terminate",
                    DIST_NAMES[di],
                    STALL.as_secs()
                ),
            })
        }
    };
    account(ctx, &sub, h, &res);
    res.map(|_| ())
}

pub fn check_hist(ctx: &mut Ctx, h: &History) -> R {
    check_as(ctx, "hist", h)
}

pub fn check_grid(ctx: &mut Ctx, h: &History) -> R {
    check_as(ctx, "grid", h)
}

/// Same oracle behind the byte decoder a libFuzzer target will use (`History::from_bytes`).
#[derive(Clone, Debug, serde::Serialize, serde::Deserialize)]
pub struct BytesCase {
    pub bytes: Vec<u8>,
}

pub fn check_bytes(ctx: &mut Ctx, c: &BytesCase) -> R {
    let h = History::from_bytes(&c.bytes);
    if HUNG[h.dist as usize % N_DIST].load(std::sync::atomic::Ordering::SeqCst) {
        return Ok(());
    }
    let res = match run_watched(&h) {
        Some(r) => r,
        None => return Ok(()), // reported by the hist / grid sub-checks of that distribution
    };
    account(ctx, "bytes", &h, &res);
    res.map(|_| ())
}

// ------------------------------------------------------------------------------------------------
// strategies

fn sel() -> impl Strategy<Value = Sel> {
    (any::<u8>(), 0u16..96).prop_map(|(c, m)| Sel { c, m })
}

fn bulk() -> impl Strategy<Value = Bulk> {
    (any::<u8>(), sel(), sel()).prop_map(|(j, a, b)| Bulk { j, t: [a, b] })
}

fn op() -> impl Strategy<Value = Op> {
    prop_oneof![
        8 => (any::<u8>(), sel()).prop_map(|(p, t)| Op::Set { p, t }),
        7 => bulk().prop_map(Op::Update),
        1 => (any::<u8>(), 0u16..96, 0u16..96).prop_map(|(d, a, b)| Op::Spawn { d, a, b }),
        1 => any::<u8>().prop_map(|i| Op::DropOther { i }),
        1 => (any::<u8>(), any::<u8>()).prop_map(|(i, n)| Op::SampleOther { i, n }),
        1 => any::<u64>().prop_map(|s| Op::Reseed { s }),
        2 => any::<u8>().prop_map(|churn| Op::Reproduce { churn }),
    ]
}

fn history(dist: u8, max_ops: usize, nseeds: usize) -> impl Strategy<Value = History> {
    (bulk(), proptest::collection::vec(op(), 1..=max_ops), proptest::collection::vec(any::<u64>(), nseeds))
        .prop_map(move |(ctor, ops, seeds)| History { dist, ctor, ops, seeds })
}

// ------------------------------------------------------------------------------------------------
// exhaustive class grid

/// Every mutation (each setter × each target class, bulk update × each class combination) with the
/// first `mags` magnitude selectors.
fn grid_ops(dist: u8, mags: u16) -> Vec<Op> {
    let sp = specs(dist);
    let mut ops = Vec::new();
    for (i, s) in sp.iter().enumerate() {
        let w = class_weights(s.kind);
        for class in 0..w.len() {
            for m in 0..mags {
                ops.push(Op::Set { p: i as u8, t: Sel { c: sel_for_class(w, class), m } });
            }
        }
    }
    if dist == 4 || dist == 12 {
        for class in 0..JOINT_WEIGHTS.len() {
            for m in 0..mags {
                for m2 in 0..mags.min(2) {
                    ops.push(Op::Update(Bulk { j: sel_for_class(&JOINT_WEIGHTS, class), t: [Sel { c: 0, m }, Sel { c: 0, m: m2 }] }));
                }
            }
        }
    } else {
        let w0 = class_weights(sp[0].kind);
        let w1 = if sp.len() > 1 { class_weights(sp[1].kind) } else { &[1u8][..] };
        for c0 in 0..w0.len() {
            for c1 in 0..w1.len() {
                for m in 0..mags {
                    ops.push(Op::Update(Bulk { j: 0, t: [Sel { c: sel_for_class(w0, c0), m }, Sel { c: sel_for_class(w1, c1), m: m + 1 }] }));
                }
            }
        }
    }
    ops
}

/// "same" constructor: the law's default parameters.
fn default_ctor(dist: u8) -> Bulk {
    let sp = specs(dist);
    let same = |k: PK| -> u8 {
        let w = class_weights(k);
        let idx = match k {
            PK::Prob => 2,
            PK::RealLo | PK::RealHi | PK::IntLo | PK::IntHi => 4,
            _ => 3,
        };
        sel_for_class(w, idx)
    };
    let s0 = Sel { c: same(sp[0].kind), m: 0 };
    let s1 = if sp.len() > 1 { Sel { c: same(sp[1].kind), m: 0 } } else { Sel { c: 0, m: 0 } };
    Bulk { j: sel_for_class(&JOINT_WEIGHTS, 6), t: [s0, s1] }
}

fn grid_histories(dist: u8, seed: u64) -> Vec<History> {
    let mut out = Vec::new();
    let ctor = default_ctor(dist);
    let seeds = vec![seed, seed ^ 0xABCDEF];
    // every constructor class
    for o in grid_ops(dist, 6) {
        if let Op::Update(b) = o {
            out.push(History { dist, ctor: b, ops: vec![Op::Reproduce { churn: 3 }], seeds: seeds.clone() });
        }
    }
    // single mutations
    for o in grid_ops(dist, 6) {
        out.push(History { dist, ctor, ops: vec![o], seeds: seeds.clone() });
    }
    // all ordered pairs
    let g = grid_ops(dist, 2);
    for a in &g {
        for b in &g {
            out.push(History { dist, ctor, ops: vec![a.clone(), b.clone()], seeds: seeds.clone() });
        }
    }
    out
}

pub fn run(ctx: &mut Ctx) {
    ctx.rule = "a case is one history: distribution, constructor selectors, 1..=20 operations (thorough 1..=60) from {setter, bulk update, \
create/drop/sample unrelated objects, re-seed, reproducibility probe}, 5 RNG seeds (thorough 50); target selectors are resolved against the \
current model parameters (valid: absolute, above, below, same, next to a switch point, interval entirely above / below / overlapping / \
containing / degenerate; invalid: zero or negative scale/shape/rate/dof, p outside [0,1], lower > upper). Non-trivial: at least 2 \
successful mutations of which one moves a parameter across a branch or bound (new interval disjoint from the old one, sampler switch \
point, any change on a law with a cached helper sampler); distinct by hash of the whole history"
        .into();
    ctx.assumptions = vec![
        "parameter domains are the documented ones: p in [0,1]; alpha, beta, lambda, minval, dof > 0; sigma >= 0; lower <= upper; n any non-negative integer; mu any finite real".into(),
        "integer-typed parameters travel through update(&[f64]) as integer-valued floats; NaN, infinite and non-integral values for integer parameters are not generated".into(),
        "NaN in a real-valued parameter: whether it is rejected is not asserted (several constructors of the unchanged library accept it); asserted is only that constructor, setter and update treat it alike (sub-check nan-alike/<Dist>)".into(),
        "a panic of any kind counts as rejection; a panic raised by both the mutated object and its fresh twin on the same observation counts as identical behaviour".into(),
        "after a rejected setter (and a rejected update of a one-parameter law) the parameters are unchanged; after a rejected bulk update of a two-parameter law they are unknown but in-domain and the next valid bulk update must succeed".into(),
        format!("sample streams are not compared while a gamma-sampler shape below {} is current (Gamma::sample does not terminate there on the unchanged tree, F10/C03); densities, mean and variance still are", SAFE_SHAPE),
        "all parameters finite, |real| <= ~1e7, positive reals in [1e-8, 1e6], n <= 200000".into(),
    ];

    // --- exhaustive grid -----------------------------------------------------------------------
    let mut grid_total = 0usize;
    for dist in 0..N_DIST as u8 {
        let hs = grid_histories(dist, crate::engine::mix_seed(ctx.seed, "C18/grid", dist as u64));
        grid_total += hs.len();
        // watched like every other history (see `run_watched`); `None` = did not come back, twice
        let res = par_map(&hs, 16, |_, h| {
            if HUNG[h.dist as usize % N_DIST].load(std::sync::atomic::Ordering::SeqCst) {
                return None;
            }
            let r = run_watched(h).or_else(|| run_watched(h));
            if r.is_none() {
                HUNG[h.dist as usize % N_DIST].store(true, std::sync::atomic::Ordering::SeqCst);
            }
            Some(r)
        });
        let sub = sub_of("grid", dist);
        let mut hang_reported = false;
        for (h, r) in hs.iter().zip(res.iter()) {
            match r {
                None => {} // skipped after a hang of this distribution was seen
                Some(Some(r)) => {
                    account(ctx, &sub, h, r);
                    if let Err(f) = r {
                        ctx.handle_fail(&sub, f, h);
                    }
                }
                Some(None) => {
                    if !hang_reported {
                        hang_reported = true;
                        let f = Fail {
                            sig: format!("C18/{}/hang", DIST_NAMES[dist as usize]),
                            what: format!(
                                "{}: a history of at most two parameter changes did not finish within {} s, twice: some call on the object or its twin does not terminate",
                                DIST_NAMES[dist as usize],
                                STALL.as_secs()
                            ),
                        };
                        account(ctx, &sub, h, &Err(Fail { sig: f.sig.clone(), what: f.what.clone() }));
                        ctx.handle_fail(&sub, &f, h);
                    }
                }
            }
        }
    }
    ctx.note("grid_histories", json!(grid_total));
    ctx.exhaustive.push(
        "per distribution, from the default constructor: every constructor class, every single mutation and every ordered pair of mutations over \
(setter of each parameter x each target class, bulk update x each class combination), first 2 magnitudes (6 for single steps)"
            .into(),
    );

    // --- random histories ----------------------------------------------------------------------
    let n = ctx.scale(4_000, 50_000);
    let max_ops = ctx.scale(20, 60) as usize;
    let nseeds = ctx.scale(5, 50) as usize;
    for dist in 0..N_DIST as u8 {
        let sub = sub_of("hist", dist);
        ctx.run_prop_par(&sub, n, 16, || history(dist, max_ops, nseeds), check_hist);
    }
    // bulk reproducibility: every distribution x every size x {sample_n, sample_matrix}, then random parameters
    for dist in 0..N_DIST as u8 {
        for (k, n) in BULK_SIZES.iter().enumerate() {
            for cols in [0usize, 8] {
                if cols > 0 && n % cols != 0 {
                    continue;
                }
                let c = BulkCase { dist, a: 0, b: 0, n: *n, cols, seed: crate::engine::mix_seed(ctx.seed, "C18/bulk", (dist as u64) << 8 | k as u64) };
                let sub = format!("bulk/{}", DIST_NAMES[dist as usize]);
                ctx.check_one(&sub, &c, check_bulk);
            }
        }
    }
    ctx.exhaustive.push("bulk reproducibility: 13 distributions (default-class parameters) x 19 sizes from 1 to 300000 x {sample_n, sample_matrix with 8 columns}".into());
    ctx.run_prop_par("bulk", ctx.scale(300, 6_000), 16, bulk_strat, check_bulk);
    // NaN is treated alike by constructor, setter and update: every real-valued parameter of every distribution
    for dist in 0..N_DIST as u8 {
        for param in 0..specs(dist).len() {
            for j in 0..ctx.scale(8, 64) {
                let h = crate::engine::mix_seed(ctx.seed, "C18/nan", (dist as u64) << 16 | (param as u64) << 8 | j);
                let c = NanCase { dist, param, a: if j == 0 { 0 } else { h as u16 }, b: if j == 0 { 0 } else { (h >> 16) as u16 } };
                let sub = format!("nan-alike/{}", DIST_NAMES[dist as usize]);
                ctx.check_one(&sub, &c, check_nan_alike);
            }
        }
    }
    ctx.exhaustive.push("NaN treated alike by constructor / setter / update: every real-valued parameter of the 13 distributions".into());
    // Default::default() of every distribution
    for dist in 0..N_DIST as u8 {
        for j in 0..ctx.scale(8, 64) {
            let h = crate::engine::mix_seed(ctx.seed, "C18/default", (dist as u64) << 8 | j);
            let c = DefaultCase { dist, a: h as u16, b: (h >> 16) as u16 };
            let sub = format!("default/{}", DIST_NAMES[dist as usize]);
            ctx.check_one(&sub, &c, check_default);
        }
    }
    ctx.exhaustive.push("Default::default() of the 13 distributions: in-domain probes, then a valid bulk update compared with a fresh twin".into());
    // byte-decoded histories (all distributions mixed; exercises the fuzz decoder)
    ctx.run_prop_par("bytes", ctx.scale(4_000, 50_000), 8, || proptest::collection::vec(any::<u8>(), 0..160).prop_map(|bytes| BytesCase { bytes }), check_bytes);
    // coverage-guided campaign (libFuzzer, ASan) over the same decoder and oracle: thorough tier only
    if !ctx.quick() {
        crate::engine::fuzzdrv::run(
            ctx,
            crate::engine::fuzzdrv::Campaign { target: "c18", runs_per_job: 60000, jobs: 8, max_len: 400, seeds: vec![vec![3, 0, 0, 0, 0, 1, 0, 1, 0, 5, 1, 1, 9], (0u8..150).map(|i| i.wrapping_mul(37)).collect::<Vec<u8>>(), vec![12, 1, 1, 1, 1, 2, 1, 200, 3, 3, 1, 0, 0, 4, 4, 4]] },
        );
    }
}

/// Bulk reproducibility: one `sample_n(n)` / `sample_matrix(r, c)` call from a fixed seed, for sizes on
/// both sides of every plausible batching threshold (a bulk path that hands work to other threads does
/// not see the thread-local seed).
#[derive(Clone, Debug, serde::Serialize, serde::Deserialize)]
pub struct BulkCase {
    pub dist: u8,
    pub a: u16,
    pub b: u16,
    pub n: usize,
    /// 0 = sample_n(n); otherwise sample_matrix(n / cols, cols)
    pub cols: usize,
    pub seed: u64,
}

pub const BULK_SIZES: [usize; 19] = [1, 2, 17, 255, 256, 1000, 1024, 4096, 16383, 16384, 16385, 40000, 65536, 100000, 131071, 131072, 131073, 262144, 300000];

pub fn check_bulk(ctx: &mut Ctx, c: &BulkCase) -> R {
    if c.dist as usize >= N_DIST || c.n == 0 || c.n > 400_000 || (c.cols > 0 && c.n % c.cols != 0) {
        return Ok(());
    }
    let name = DIST_NAMES[c.dist as usize];
    let sub = format!("bulk/{}", name);
    let p = valid_params(c.dist, c.a, c.b);
    if !in_domain(c.dist, &p) || min_shape(c.dist, &p) < SAFE_SHAPE {
        return Ok(());
    }
    ctx.case(&sub, &format!("{}/n={}", if c.cols == 0 { "sample_n" } else { "sample_matrix" }, c.n), c.n >= 2, Hx::new().json(c).finish());
    ctx.sample(&sub, || json!(c));
    let what = if c.cols == 0 { format!("sample_n({})", c.n) } else { format!("sample_matrix({}, {})", c.n / c.cols, c.cols) };
    let obj = match Obj::construct(c.dist, &p) {
        Ok(o) => o,
        Err(m) => return crate::engine::fail(format!("C18/{}/new/valid-rejected", name), format!("{}::new{:?} (valid parameters) panicked: {}", name, p, m)),
    };
    let first = obj.bulk(c.seed, c.n, c.cols);
    let again = obj.bulk(c.seed, c.n, c.cols);
    let twin = Obj::construct(c.dist, &p).and_then(|t| t.bulk(c.seed, c.n, c.cols));
    let (f, g, t) = match (first, again, twin) {
        (Ok(f), Ok(g), Ok(t)) => (f, g, t),
        (a, b, t) => {
            let m = [a.err(), b.err(), t.err()].into_iter().flatten().next().unwrap_or_default();
            return crate::engine::fail(format!("C18/{}/bulk/panic", name), format!("{}{:?}.{} panicked: {}", name, p, what, m));
        }
    };
    let (er, ec) = if c.cols == 0 { (1, c.n) } else { (c.n / c.cols, c.cols) };
    ensure!(f.1 == er && f.2 == ec && f.0.len() == c.n, format!("C18/{}/bulk/shape", name), "{}{:?}.{} returned shape {}x{} with {} values", name, p, what, f.1, f.2, f.0.len());
    let diff = |x: &Vec<u64>, y: &Vec<u64>| x.iter().zip(y).filter(|(a, b)| a != b).count();
    ensure!(
        f.0 == g.0,
        format!("C18/{}/reproducibility/bulk", name),
        "{}{:?}.{} from seed {} twice on the same object: {} of {} values differ — bulk sampling is not a function of the seed",
        name, p, what, c.seed, diff(&f.0, &g.0), c.n
    );
    ensure!(
        f.0 == t.0,
        format!("C18/{}/twin/bulk", name),
        "{}{:?}.{} from seed {}: a freshly constructed twin draws a different stream ({} of {} values differ)",
        name, p, what, c.seed, diff(&f.0, &t.0), c.n
    );
    Ok(())
}

/// "constructors, setters and bulk updates alike": a non-number (NaN) in a real-valued parameter is treated the
/// same way by all three routes. Whether NaN is rejected at all is not asserted (several constructors of the
/// unchanged library let it through, DESIGN section 5); only a route that disagrees with the constructor is a
/// violation — an object must not be able to reach through a setter what its constructor refuses.
#[derive(Clone, Debug, serde::Serialize, serde::Deserialize)]
pub struct NanCase {
    pub dist: u8,
    pub param: usize,
    pub a: u16,
    pub b: u16,
}

pub fn check_nan_alike(ctx: &mut Ctx, c: &NanCase) -> R {
    if c.dist as usize >= N_DIST || c.param >= specs(c.dist).len() {
        return Ok(());
    }
    let spec = &specs(c.dist)[c.param];
    if matches!(spec.kind, PK::PosInt | PK::Nat | PK::IntLo | PK::IntHi) {
        return Ok(());
    }
    let name = DIST_NAMES[c.dist as usize];
    let sub = format!("nan-alike/{}", name);
    let p = valid_params(c.dist, c.a, c.b);
    if !in_domain(c.dist, &p) {
        return Ok(());
    }
    ctx.case(&sub, spec.name, true, Hx::new().json(c).finish());
    ctx.sample(&sub, || json!(c));
    let mut q = p.clone();
    q[c.param] = f64::NAN;
    let ctor = Obj::construct(c.dist, &q).is_ok();
    let fresh = || Obj::construct(c.dist, &p).map_err(|m| Fail { sig: format!("C18/{}/new/valid-rejected", name), what: format!("{}::new{:?} (valid parameters) panicked: {}", name, p, m) });
    let setter = fresh()?.set(c.param, f64::NAN).is_ok();
    let update = fresh()?.update(&q).is_ok();
    ctx.label(&sub, if ctor { "constructor-accepts-NaN" } else { "constructor-rejects-NaN" });
    let say = |b: bool| if b { "accepts" } else { "rejects" };
    ensure!(
        ctor == setter && ctor == update,
        format!("C18/{}/nan-alike/{}", name, spec.name),
        "{} (valid parameters {:?}), NaN for `{}`: the constructor {} it, {} {} it, update {} it — the three routes do not treat the value alike",
        name, p, spec.name, say(ctor), spec.setter, say(setter), say(update)
    );
    Ok(())
}

/// `Default::default()` is a constructor too: the object it returns must hold in-domain parameters. Which ones is not
/// fixed by the statement, so only what is true of *every* valid member is asserted: the density is a number >= 0 (not
/// NaN) on a grid across the universal support, the variance is not negative, draws lie in the universal support,
/// and the first valid bulk update turns the object into the twin of those parameters.
#[derive(Clone, Debug, serde::Serialize, serde::Deserialize)]
pub struct DefaultCase {
    pub dist: u8,
    pub a: u16,
    pub b: u16,
}

pub fn check_default(ctx: &mut Ctx, c: &DefaultCase) -> R {
    if c.dist as usize >= N_DIST {
        return Ok(());
    }
    let name = DIST_NAMES[c.dist as usize];
    let sub = format!("default/{}", name);
    ctx.case(&sub, "default-constructor", true, Hx::new().json(c).finish());
    ctx.sample(&sub, || json!(c));
    let sig = |k: &str| format!("C18/{}/default/{}", name, k);
    let mut obj = match Obj::default_of(c.dist) {
        Ok(o) => o,
        Err(m) => return crate::engine::fail(sig("panic"), format!("{}::default() panicked: {}", name, m)),
    };
    let kind = if is_discrete(c.dist) { "pmf" } else { "pdf" };
    for &x in probe_points(c.dist, &default_params(c.dist)).iter() {
        if let Ok(d) = obj.density(x) {
            ensure!(!(d.is_nan() || d < 0.0), sig("out-of-domain"), "{}::default(): {}({:e}) = {:e}; no member of the family has such a density", name, kind, x, d);
        }
    }
    if let Ok(v) = obj.var() {
        ensure!(!(v < 0.0), sig("out-of-domain"), "{}::default(): var() = {:e} < 0", name, v);
    }
    let p = valid_params(c.dist, c.a, c.b);
    if !in_domain(c.dist, &p) {
        return Ok(());
    }
    if let Err(m) = obj.update(&p) {
        return crate::engine::fail(sig("update-rejected"), format!("{}::default().update({:?}) — valid parameters — panicked: {}", name, p, m));
    }
    let twin = match Obj::construct(c.dist, &p) {
        Ok(t) => t,
        Err(m) => return crate::engine::fail(format!("C18/{}/new/valid-rejected", name), format!("{}::new{:?} (valid parameters) panicked: {}", name, p, m)),
    };
    for &x in probe_points(c.dist, &p).iter() {
        let (a, b) = (obj.density(x), twin.density(x));
        let same = match (&a, &b) {
            (Ok(u), Ok(v)) => u.to_bits() == v.to_bits() || (u.is_nan() && v.is_nan()),
            (Err(_), Err(_)) => true,
            _ => false,
        };
        ensure!(same, sig("twin"), "{}::default() then update({:?}): {}({:e}) = {:?}, a fresh object gives {:?}", name, p, kind, x, a, b);
    }
    Ok(())
}

fn bulk_strat() -> impl Strategy<Value = BulkCase> {
    (0..N_DIST as u8, any::<u16>(), any::<u16>(), 0..BULK_SIZES.len(), 0usize..4, any::<u64>()).prop_map(|(dist, a, b, si, ci, seed)| {
        let n = BULK_SIZES[si];
        let cols = [0usize, 0, 1, 8][ci];
        let cols = if cols > 0 && n % cols != 0 { 0 } else { cols };
        BulkCase { dist, a, b, n, cols, seed }
    })
}

pub fn replay(ctx: &mut Ctx, sub: &str, v: Value) -> Option<R> {
    if sub.starts_with("bulk/") || sub == "bulk" {
        return Some(check_bulk(ctx, &decode::<BulkCase>(v)?));
    }
    if sub == "bytes" {
        return Some(check_bytes(ctx, &decode::<BytesCase>(v)?));
    }
    if sub.starts_with("default/") {
        return Some(check_default(ctx, &decode::<DefaultCase>(v)?));
    }
    if sub.starts_with("nan-alike/") {
        return Some(check_nan_alike(ctx, &decode::<NanCase>(v)?));
    }
    if sub.starts_with("hist/") {
        Some(check_hist(ctx, &decode::<History>(v)?))
    } else if sub.starts_with("grid/") {
        Some(check_grid(ctx, &decode::<History>(v)?))
    } else {
        None
    }
}
