//! C19 — Resampling never invents, loses or unpairs data.
//!
//! Generated: data vectors of every length 1..=40 (enumerated) and random lengths 2..=2000, with
//! distinct, repeated, constant and special (±0, ±inf, extreme) values; 1..=200 resamples; RNG seeds
//! stored in the case (`alea::set_seed` in the evaluating thread).
//!
//! Oracles (all exact, bit patterns):
//! * `bootstrap(d, m)`: no panic, m vectors, each of length len(d), every element bit-identical to
//!   some element of d;
//! * `jackknife(d)`: exactly len(d) vectors, the i-th bit-identical to d without element i;
//! * `shuffle(d)`: same length and same multiset of bit patterns;
//! * `shuffle_two(a, b)`: one common permutation ⇔ the multiset of pairs (a_i, b_i) is preserved (and
//!   each output is a permutation of its input); mismatched lengths panic;
//! * uniformity of bootstrap positions (statistical, α = 1e-12 per test): with data = 0,1,…,n−1 the
//!   drawn positions pooled over m resamples × many seeds pass (i) a Bernstein bound on every cell
//!   count (union bound over cells), (ii) Pearson's chi-square against the Laurent–Massart tail bound,
//!   (iii) the DKW band on the empirical CDF of positions. See `bernstein_dev`, `chi2_bound`, `dkw_eps`.

use crate::engine::{catch, decode, mix_seed, par_map, Ctx, Fail, Hx, R};
use compute::validation::{bootstrap, jackknife, shuffle, shuffle_two};
use proptest::prelude::*;
use serde::{Deserialize, Serialize};
use serde_json::{json, Value};

pub const ALPHA: f64 = 1e-12;

// ------------------------------------------------------------------------------------------------
// data

#[derive(Clone, Copy, Debug, Serialize, Deserialize)]
pub struct Data {
    pub n: usize,
    /// 0 ramp (distinct), 1 distinct with mixed sign and magnitude, 2 repeated (small alphabet),
    /// 3 special values (±0, ±inf, NaN of both signs, extremes, duplicates), 4 constant
    pub class: u8,
    pub salt: u64,
}

const CLASS_NAMES: [&str; 5] = ["ramp", "distinct", "repeated", "special", "constant"];
const SPECIAL: [f64; 12] = [0.0, -0.0, f64::INFINITY, f64::NEG_INFINITY, 1.0, -1.0, f64::MIN_POSITIVE, f64::MAX, 5e-324, -f64::MAX, f64::NAN, -f64::NAN];
const ALPHABET: [f64; 6] = [0.5, -1.25, 3.0, 1e10, -0.0, 0.0];

pub fn gen_data(d: &Data) -> Vec<f64> {
    let h = |i: usize| Hx::new().u(d.salt).u(i as u64).finish();
    (0..d.n)
        .map(|i| match d.class % 5 {
            0 => i as f64 * 1.5 - 7.0,
            1 => {
                // mantissa 1 + i/4096 is unique per index (n <= 4096), so values are distinct
                let hh = h(i);
                let e = (hh & 63) as i32 - 32;
                let s = if (hh >> 6) & 1 == 1 { -1.0 } else { 1.0 };
                s * (1.0 + (i % 4096) as f64 / 4096.0) * 2f64.powi(e)
            }
            2 => {
                let k = 1 + (d.salt % 5) as usize;
                ALPHABET[(h(i) % (k as u64 + 1)) as usize]
            }
            3 => SPECIAL[(h(i) % SPECIAL.len() as u64) as usize],
            _ => SPECIAL[(d.salt % SPECIAL.len() as u64) as usize + 0],
        })
        .collect()
}

fn bits(v: &[f64]) -> Vec<u64> {
    v.iter().map(|x| x.to_bits()).collect()
}

fn sorted_bits(v: &[f64]) -> Vec<u64> {
    let mut b = bits(v);
    b.sort_unstable();
    b
}

fn distinct_values(v: &[f64]) -> usize {
    let mut b = sorted_bits(v);
    b.dedup();
    b.len()
}

fn len_class(n: usize) -> &'static str {
    match n {
        1 => "len=1",
        2 => "len=2",
        3..=8 => "len=3..8",
        9..=40 => "len=9..40",
        41..=300 => "len=41..300",
        _ => "len>300",
    }
}

fn sig(func: &str, kind: &str, n: usize) -> String {
    // length 1 is a class of its own (degenerate index range), never a varying number
    if kind == "panic" && n == 1 {
        format!("C19/{}/panic/len=1", func)
    } else {
        format!("C19/{}/{}", func, kind)
    }
}

fn account(ctx: &mut Ctx, sub: &str, d: &Data, data: &[f64], hash: u64) {
    let nontrivial = d.n >= 2 && distinct_values(data) >= 2;
    ctx.case(sub, &format!("{}/{}", len_class(d.n), CLASS_NAMES[d.class as usize % 5]), nontrivial, hash);
}

// ------------------------------------------------------------------------------------------------
// bootstrap

#[derive(Clone, Debug, Serialize, Deserialize)]
pub struct BootCase {
    pub data: Data,
    pub m: usize,
    pub seed: u64,
}

pub fn check_bootstrap(ctx: &mut Ctx, c: &BootCase) -> R {
    if c.data.n == 0 || c.data.n > 1 << 20 || c.m > 1 << 16 {
        return Ok(()); // outside the quantifier (decoded files only)
    }
    let data = gen_data(&c.data);
    let n = data.len();
    account(ctx, "bootstrap", &c.data, &data, Hx::new().json(c).finish());
    ctx.sample("bootstrap", || json!(c));
    let seed = c.seed;
    let m = c.m;
    let d2 = data.clone();
    let res = catch(move || {
        alea::set_seed(seed);
        bootstrap(&d2, m)
    });
    let out = match res {
        Ok(o) => o,
        Err(msg) => {
            return Err(Fail { sig: sig("bootstrap", "panic", n), what: format!("bootstrap(data of length {}, {}) with seed {} panicked: {}", n, m, seed, msg) });
        }
    };
    ensure!(out.len() == m, sig("bootstrap", "count", n), "bootstrap(len {}, {}) returned {} resamples", n, m, out.len());
    let set = {
        let mut s = sorted_bits(&data);
        s.dedup();
        s
    };
    for (r, v) in out.iter().enumerate() {
        ensure!(v.len() == n, sig("bootstrap", "length", n), "bootstrap(len {}, {}): resample {} has length {}", n, m, r, v.len());
        for (j, x) in v.iter().enumerate() {
            ensure!(
                set.binary_search(&x.to_bits()).is_ok(),
                sig("bootstrap", "foreign-element", n),
                "bootstrap(len {}, {}) seed {}: resample {} position {} holds {:e} (bits {:#x}), which is not an element of the data",
                n, m, seed, r, j, x, x.to_bits()
            );
        }
    }
    Ok(())
}

// ------------------------------------------------------------------------------------------------
// jackknife

#[derive(Clone, Debug, Serialize, Deserialize)]
pub struct JackCase {
    pub data: Data,
    pub seed: u64,
}

pub fn check_jackknife(ctx: &mut Ctx, c: &JackCase) -> R {
    if c.data.n == 0 || c.data.n > 1 << 14 {
        return Ok(());
    }
    let data = gen_data(&c.data);
    let n = data.len();
    account(ctx, "jackknife", &c.data, &data, Hx::new().json(c).finish());
    ctx.sample("jackknife", || json!(c));
    let d2 = data.clone();
    let seed = c.seed;
    let res = catch(move || {
        alea::set_seed(seed);
        jackknife(&d2)
    });
    let out = match res {
        Ok(o) => o,
        Err(msg) => return Err(Fail { sig: sig("jackknife", "panic", n), what: format!("jackknife(data of length {}) panicked: {}", n, msg) }),
    };
    ensure!(out.len() == n, sig("jackknife", "count", n), "jackknife(len {}) returned {} vectors", n, out.len());
    let db = bits(&data);
    for (i, v) in out.iter().enumerate() {
        ensure!(v.len() == n - 1, sig("jackknife", "length", n), "jackknife(len {}): vector {} has length {}", n, i, v.len());
        let vb = bits(v);
        let ok = vb[..i] == db[..i] && vb[i..] == db[i + 1..];
        ensure!(ok, sig("jackknife", "content", n), "jackknife(len {}): vector {} is not the data without element {}: {:?}", n, i, i, &v[..v.len().min(8)]);
    }
    Ok(())
}

// ------------------------------------------------------------------------------------------------
// shuffle

pub fn check_shuffle(ctx: &mut Ctx, c: &JackCase) -> R {
    if c.data.n == 0 || c.data.n > 1 << 20 {
        return Ok(());
    }
    let data = gen_data(&c.data);
    let n = data.len();
    account(ctx, "shuffle", &c.data, &data, Hx::new().json(c).finish());
    ctx.sample("shuffle", || json!(c));
    let d2 = data.clone();
    let seed = c.seed;
    let res = catch(move || {
        alea::set_seed(seed);
        shuffle(&d2)
    });
    let out = match res {
        Ok(o) => o,
        Err(msg) => return Err(Fail { sig: sig("shuffle", "panic", n), what: format!("shuffle(data of length {}) with seed {} panicked: {}", n, seed, msg) }),
    };
    ensure!(out.len() == n, sig("shuffle", "length", n), "shuffle(len {}) returned length {}", n, out.len());
    let (a, b) = (sorted_bits(&data), sorted_bits(&out));
    if a != b {
        let k = a.iter().zip(&b).position(|(x, y)| x != y).unwrap_or(0);
        return Err(Fail {
            sig: sig("shuffle", "multiset", n),
            what: format!(
                "shuffle(len {}) seed {}: output is not a permutation of the input (sorted bit patterns first differ at rank {}: input {:e}, output {:e})",
                n, seed, k, f64::from_bits(a[k]), f64::from_bits(b[k])
            ),
        });
    }
    Ok(())
}

// ------------------------------------------------------------------------------------------------
// shuffle_two

#[derive(Clone, Debug, Serialize, Deserialize)]
pub struct TwoCase {
    pub a: Data,
    /// class and salt of the second array (its length is `a.n`, or `nb` in the mismatch sub-check)
    pub b: Data,
    pub seed: u64,
}

pub fn check_shuffle_two(ctx: &mut Ctx, c: &TwoCase) -> R {
    if c.a.n == 0 || c.a.n > 1 << 20 {
        return Ok(());
    }
    let a = gen_data(&c.a);
    let b = gen_data(&Data { n: c.a.n, ..c.b });
    let n = a.len();
    account(ctx, "shuffle_two", &c.a, &a, Hx::new().json(c).finish());
    ctx.label("shuffle_two", &format!("second={}", CLASS_NAMES[c.b.class as usize % 5]));
    ctx.sample("shuffle_two", || json!(c));
    let (a2, b2, seed) = (a.clone(), b.clone(), c.seed);
    let res = catch(move || {
        alea::set_seed(seed);
        shuffle_two(&a2, &b2)
    });
    let (oa, ob) = match res {
        Ok(o) => o,
        Err(msg) => return Err(Fail { sig: sig("shuffle_two", "panic", n), what: format!("shuffle_two(two arrays of length {}) with seed {} panicked: {}", n, seed, msg) }),
    };
    ensure!(oa.len() == n && ob.len() == n, sig("shuffle_two", "length", n), "shuffle_two(len {}) returned lengths {} and {}", n, oa.len(), ob.len());
    ensure!(sorted_bits(&a) == sorted_bits(&oa), sig("shuffle_two", "multiset", n), "shuffle_two(len {}) seed {}: first output is not a permutation of the first input", n, seed);
    ensure!(sorted_bits(&b) == sorted_bits(&ob), sig("shuffle_two", "multiset", n), "shuffle_two(len {}) seed {}: second output is not a permutation of the second input", n, seed);
    // one common permutation exists  <=>  the multiset of pairs is preserved
    let pairs = |x: &[f64], y: &[f64]| {
        let mut p: Vec<(u64, u64)> = x.iter().zip(y).map(|(u, v)| (u.to_bits(), v.to_bits())).collect();
        p.sort_unstable();
        p
    };
    let (pi, po) = (pairs(&a, &b), pairs(&oa, &ob));
    if pi != po {
        let k = po.iter().position(|p| pi.binary_search(p).is_err()).unwrap_or(0);
        return Err(Fail {
            sig: sig("shuffle_two", "unpaired", n),
            what: format!(
                "shuffle_two(len {}) seed {}: no common permutation — the output pairs ({:e}, {:e}), which is not an input pair",
                n, seed, f64::from_bits(po[k].0), f64::from_bits(po[k].1)
            ),
        });
    }
    Ok(())
}

#[derive(Clone, Debug, Serialize, Deserialize)]
pub struct MismatchCase {
    pub na: usize,
    pub nb: usize,
    pub seed: u64,
}

pub fn check_mismatch(ctx: &mut Ctx, c: &MismatchCase) -> R {
    if c.na == c.nb || c.na == 0 || c.nb == 0 || c.na > 1 << 16 || c.nb > 1 << 16 {
        return Ok(());
    }
    ctx.case("shuffle_two_mismatch", if c.na < c.nb { "first-shorter" } else { "first-longer" }, true, Hx::new().json(c).finish());
    ctx.sample("shuffle_two_mismatch", || json!(c));
    let a: Vec<f64> = (0..c.na).map(|i| i as f64).collect();
    let b: Vec<f64> = (0..c.nb).map(|i| 100. + i as f64).collect();
    let seed = c.seed;
    let res = catch(move || {
        alea::set_seed(seed);
        shuffle_two(&a, &b)
    });
    // arrays of different lengths admit no common permutation: a return value cannot satisfy the property
    ensure!(res.is_err(), "C19/shuffle_two/mismatch-accepted", "shuffle_two on lengths {} and {} returned a value instead of panicking", c.na, c.nb);
    Ok(())
}

// ------------------------------------------------------------------------------------------------
// statistics helpers

/// Bernstein deviation bound for a Binomial(N, p) count S at level `alpha` (two-sided):
/// P(|S − Np| ≥ t) ≤ 2·exp(−t² / (2(v + t/3))), v = Np(1−p) (summands centred, bounded by 1).
/// Solving 2·exp(…) = alpha for t gives t = x/3 + sqrt(x²/9 + 2vx) with x = ln(2/alpha). Rigorous for
/// every N.
pub fn bernstein_dev(n_draws: f64, p: f64, alpha: f64) -> f64 {
    let x = (2. / alpha).ln();
    let v = n_draws * p * (1. - p);
    x / 3. + (x * x / 9. + 2. * v * x).sqrt()
}

/// Laurent–Massart (2000, Lemma 1): for X ~ chi-square with k degrees of freedom,
/// P(X ≥ k + 2·sqrt(k·x) + 2x) ≤ exp(−x). With x = ln(1/alpha) this is a closed-form conservative
/// upper quantile. Pearson's statistic of a multinomial is only asymptotically chi-square; the check
/// therefore (a) requires an expected cell count ≥ 1000 and (b) multiplies the bound by 1.25, which
/// lowers the nominal chi-square tail probability by a further factor > 1e6 (e.g. k = 63: 1e-12 →
/// 3e-19) — far more than the relative error of the chi-square approximation in that regime; single
/// cells far in the tail are bounded rigorously by `bernstein_dev`.
pub fn chi2_bound(k: f64, alpha: f64) -> f64 {
    let x = (1. / alpha).ln();
    1.25 * (k + 2. * (k * x).sqrt() + 2. * x)
}

/// Dvoretzky–Kiefer–Wolfowitz with Massart's constant: P(sup|F_N − F| > eps) ≤ 2·exp(−2·N·eps²), valid
/// for every distribution (also discrete). eps = sqrt(ln(2/alpha) / (2N)).
pub fn dkw_eps(n_draws: f64, alpha: f64) -> f64 {
    ((2. / alpha).ln() / (2. * n_draws)).sqrt()
}

pub fn self_test() -> bool {
    // chi-square 0.999999999999 quantiles are below the bound; bound not absurdly loose
    let b10 = chi2_bound(10., 1e-12) / 1.25; // exact quantile ~ 79.6
    let b100 = chi2_bound(100., 1e-12) / 1.25; // exact quantile ~ 225
    let e = dkw_eps(1e6, 1e-12); // 0.003763
    let t = bernstein_dev(1e6, 0.5, 1e-12); // ~ 3772
    b10 > 79.6 && b10 < 140. && b100 > 225. && b100 < 320. && (e - 0.0037631).abs() < 1e-5 && t > 3700. && t < 3800.
}

// ------------------------------------------------------------------------------------------------
// uniformity of bootstrap positions

#[derive(Clone, Debug, Serialize, Deserialize)]
pub struct UniCase {
    pub n: usize,
    pub m: usize,
    pub nseeds: usize,
    pub seed0: u64,
}

pub struct UniOut {
    pub cell: f64,
    pub chi2: f64,
    pub dkw: f64,
}

/// Pure evaluation (runs on worker threads): pooled position counts and the three statistics as
/// ratios to their bounds.
pub fn eval_uniformity(c: &UniCase) -> Result<UniOut, Fail> {
    let n = c.n;
    let data: Vec<f64> = (0..n).map(|i| i as f64).collect();
    let mut counts = vec![0u64; n];
    // the same, resolved by slot of the resample: what the first and the last slot hold
    let (mut first, mut last) = (vec![0u64; n], vec![0u64; n]);
    let mut nres = 0u64;
    for s in 0..c.nseeds {
        let seed = mix_seed(c.seed0, "C19/uniformity", s as u64);
        let d2 = &data;
        let m = c.m;
        let res = catch(move || {
            alea::set_seed(seed);
            bootstrap(d2, m)
        });
        let out = match res {
            Ok(o) => o,
            Err(msg) => return Err(Fail { sig: sig("bootstrap", "panic", n), what: format!("bootstrap(0..{}, {}) with seed {} panicked: {}", n, m, seed, msg) }),
        };
        for v in &out {
            for x in v {
                let j = *x as usize;
                if !(*x >= 0. && j < n && j as f64 == *x) {
                    return Err(Fail { sig: sig("bootstrap", "foreign-element", n), what: format!("bootstrap(0..{}, {}) seed {} returned {:e}", n, m, seed, x) });
                }
                counts[j] += 1;
            }
            if v.len() == n {
                first[v[0] as usize] += 1;
                last[v[n - 1] as usize] += 1;
                nres += 1;
            }
        }
    }
    let total: u64 = counts.iter().sum();
    let nd = total as f64;
    let e = nd / n as f64;
    if total == 0 {
        return Ok(UniOut { cell: 0., chi2: 0., dkw: 0. });
    }
    // (i) every cell, union bound over the n cells
    let t = bernstein_dev(nd, 1. / n as f64, ALPHA / n as f64);
    let (jmax, dev) = counts.iter().enumerate().map(|(j, c)| (j, (*c as f64 - e).abs())).fold((0, 0.), |a, b| if b.1 > a.1 { b } else { a });
    if dev > t {
        return Err(Fail {
            sig: "C19/bootstrap/uniformity/cell".into(),
            what: format!(
                "bootstrap positions not equally likely: data length {}, {} draws pooled over {} seeds x {} resamples: position {} drawn {} times, expected {:.1} ± {:.1} (Bernstein, alpha 1e-12/n); position 0: {}, last: {}",
                n, total, c.nseeds, c.m, jmax, counts[jmax], e, t, counts[0], counts[n - 1]
            ),
        });
    }
    // (i') every slot of a resample is such a draw: the first and the last slot, every cell (union bound 2n)
    if nres > 0 {
        let (nr, es) = (nres as f64, nres as f64 / n as f64);
        let ts = bernstein_dev(nr, 1. / n as f64, ALPHA / (2 * n) as f64);
        for (which, cnt) in [("first", &first), ("last", &last)] {
            let (jm, dv) = cnt.iter().enumerate().map(|(j, c)| (j, (*c as f64 - es).abs())).fold((0, 0.), |a, b| if b.1 > a.1 { b } else { a });
            if dv > ts {
                return Err(Fail {
                    sig: "C19/bootstrap/uniformity/slot".into(),
                    what: format!(
                        "bootstrap positions not equally likely in every slot: data length {}, {} resamples: the {} slot of a resample holds data position {} in {} of them, expected {:.1} ± {:.1} (Bernstein, alpha 1e-12/2n)",
                        n, nres, which, jm, cnt[jm], es, ts
                    ),
                });
            }
        }
    }
    // (ii) Pearson chi-square
    let chi2: f64 = counts.iter().map(|c| (*c as f64 - e).powi(2) / e).sum();
    let cb = chi2_bound((n - 1) as f64, ALPHA);
    // reported ratio: excess over the mean k relative to the allowed excess
    let k = (n - 1) as f64;
    let chi_ratio = if e >= 1000. { (chi2 - k).max(0.) / (cb - k) } else { 0. };
    if e >= 1000. && chi2 > cb {
        return Err(Fail {
            sig: "C19/bootstrap/uniformity/chi2".into(),
            what: format!("bootstrap positions not equally likely: data length {}, {} draws: Pearson chi-square {:.1} with {} dof exceeds the alpha = 1e-12 bound {:.1}", n, total, chi2, n - 1, cb),
        });
    }
    // (iii) DKW on the empirical CDF of positions
    let eps = dkw_eps(nd, ALPHA);
    let mut cum = 0u64;
    let mut dmax = 0f64;
    for (j, c) in counts.iter().enumerate() {
        cum += c;
        let d = (cum as f64 / nd - (j + 1) as f64 / n as f64).abs();
        if d > dmax {
            dmax = d;
        }
    }
    if dmax > eps {
        return Err(Fail {
            sig: "C19/bootstrap/uniformity/dkw".into(),
            what: format!("bootstrap positions not equally likely: data length {}, {} draws: sup |F_N - F| = {:.5} exceeds the DKW band {:.5} (alpha 1e-12)", n, total, dmax, eps),
        });
    }
    Ok(UniOut { cell: dev / t, chi2: chi_ratio, dkw: dmax / eps })
}

fn uni_class(n: usize) -> String {
    format!("n={}", match n {
        2 => "2",
        3..=8 => "3..8",
        9..=64 => "9..64",
        65..=300 => "65..300",
        _ => ">300",
    })
}

pub fn check_uniformity(ctx: &mut Ctx, c: &UniCase) -> R {
    if c.n < 2 || c.n > 1 << 16 || (c.n as u128 * c.m as u128 * c.nseeds as u128) > 1 << 31 {
        return Ok(());
    }
    ctx.case("uniformity", &uni_class(c.n), true, Hx::new().json(c).finish());
    ctx.sample("uniformity", || json!(c));
    let o = eval_uniformity(c)?;
    ctx.worst("uniformity: max cell deviation / Bernstein bound", o.cell);
    ctx.worst("uniformity: (chi-square - dof) / (1.25 x Laurent-Massart bound - dof)", o.chi2);
    ctx.worst("uniformity: sup|F_N - F| / DKW eps", o.dkw);
    Ok(())
}

// ------------------------------------------------------------------------------------------------
// strategies

/// Lengths 2..=max, half of them small; classes by index.
fn data_strat(max_n: usize) -> impl Strategy<Value = Data> {
    (0u8..4, 2usize..=40, 41usize..=300, 2usize..=max_n, 0u8..5, any::<u64>()).prop_map(move |(which, small, mid, large, class, salt)| {
        let n = match which {
            0 | 1 => small,
            2 => mid.min(max_n),
            _ => large,
        };
        Data { n, class, salt }
    })
}

fn boot_strat(max_n: usize) -> impl Strategy<Value = BootCase> {
    (data_strat(max_n), 1usize..=200, any::<u64>()).prop_map(|(data, m, seed)| {
        // keep the work per case bounded: at most 400 000 draws (no restriction up to length 2000)
        let m = m.min((400_000 / data.n).max(1));
        BootCase { data, m, seed }
    })
}

fn jack_strat(max_n: usize) -> impl Strategy<Value = JackCase> {
    (data_strat(max_n), any::<u64>()).prop_map(|(data, seed)| JackCase { data, seed })
}

fn two_strat(max_n: usize) -> impl Strategy<Value = TwoCase> {
    (data_strat(max_n), 0u8..5, any::<u64>(), any::<u64>()).prop_map(|(a, class, salt, seed)| TwoCase { a, b: Data { n: a.n, class, salt }, seed })
}

fn mismatch_strat() -> impl Strategy<Value = MismatchCase> {
    (1usize..=60, 1usize..=60, any::<bool>(), any::<u64>()).prop_map(|(a, d, longer, seed)| {
        let (na, nb) = if longer { (a + d, a) } else { (a, a + d) };
        MismatchCase { na, nb, seed }
    })
}

pub fn run(ctx: &mut Ctx) {
    ctx.rule = "data vectors are generated from (length, value class, salt): every length 1..=40 is enumerated with all 5 value classes \
(ramp, distinct mixed magnitude, repeated, special ±0/±inf/extremes, constant), 1 or 3 resamples and 3 RNG seeds; then random lengths 2..=2000 \
(half of them <= 40), 1..=200 resamples and a fresh RNG seed per case. Non-trivial: length >= 2 with at least two distinct values; distinct by \
(function, data spec, resample count, seed). The uniformity sub-check pools the positions drawn by bootstrap on data 0..n-1 over many seeds, and also counts them separately for the first and the last slot of a resample."
        .into();
    ctx.assumptions = vec![
        "data are NaN-free; elements are compared by bit pattern, so +0 and -0 are different elements".into(),
        "a panic of any kind on an input of length >= 1 is a violation; shuffle_two on arrays of different lengths must panic (no common permutation exists)".into(),
        "uniformity: draws of one bootstrap call are treated as i.i.d. positions (the statement's 'every position equally likely'); alpha = 1e-12 per test, \
Bernstein bound per cell with a union bound over cells (rigorous), DKW (rigorous), Pearson chi-square against 1.25 x the Laurent-Massart quantile with expected cell count >= 1000".into(),
    ];

    // --- enumerated: every length 1..=40 ---------------------------------------------------------
    for n in 1..=40usize {
        for class in 0u8..5 {
            for s in 0..3u64 {
                let salt = mix_seed(ctx.seed, "C19/salt", n as u64 * 16 + class as u64);
                let seed = mix_seed(ctx.seed, "C19/enum", (n as u64 * 5 + class as u64) * 3 + s);
                let data = Data { n, class, salt };
                for m in [1usize, 3] {
                    ctx.check_one("bootstrap", &BootCase { data, m, seed }, check_bootstrap);
                }
                ctx.check_one("jackknife", &JackCase { data, seed }, check_jackknife);
                ctx.check_one("shuffle", &JackCase { data, seed }, check_shuffle);
                for bclass in 0u8..5 {
                    ctx.check_one("shuffle_two", &TwoCase { a: data, b: Data { n, class: bclass, salt: salt ^ 0x55 }, seed }, check_shuffle_two);
                }
            }
        }
    }
    ctx.exhaustive.push("every data length 1..=40 x 5 value classes x 3 seeds for bootstrap (1 and 3 resamples), jackknife, shuffle, shuffle_two (x 5 classes of the second array)".into());
    for na in 1..=12usize {
        for nb in 1..=12usize {
            if na != nb {
                ctx.check_one("shuffle_two_mismatch", &MismatchCase { na, nb, seed: mix_seed(ctx.seed, "C19/mm", (na * 16 + nb) as u64) }, check_mismatch);
            }
        }
    }
    ctx.exhaustive.push("shuffle_two on every pair of different lengths 1..=12".into());

    // --- random ----------------------------------------------------------------------------------
    let n = ctx.scale(10_000, 300_000);
    ctx.run_prop_par("bootstrap", n, 16, || boot_strat(2000), check_bootstrap);
    ctx.run_prop_par("jackknife", ctx.scale(3_000, 60_000), 16, || jack_strat(2000), check_jackknife);
    ctx.run_prop_par("shuffle", n, 16, || jack_strat(2000), check_shuffle);
    ctx.run_prop_par("shuffle_two", n, 16, || two_strat(2000), check_shuffle_two);
    // "for every random stream": many seeds at the longest listed length, where an event of probability ~1e-4 per call
    // (two equal random keys, an index drawn one past the end, …) shows up; the second array runs against the first, and
    // the special-value class carries NaN, so a tie resolved by comparing the data is visible as well
    let many = ctx.scale(5_000, 100_000);
    ctx.run_prop_par(
        "shuffle_two",
        many,
        16,
        || any::<u64>().prop_map(|seed| TwoCase { a: Data { n: 2000, class: 1, salt: seed | 1 }, b: Data { n: 2000, class: 0, salt: seed >> 1 }, seed }),
        check_shuffle_two,
    );
    ctx.run_prop_par(
        "shuffle",
        many,
        16,
        || (any::<u64>(), 0u8..2).prop_map(|(seed, k)| JackCase { data: Data { n: 2000, class: [3u8, 2][k as usize], salt: seed | 1 }, seed }),
        check_shuffle,
    );
    ctx.run_prop_par("shuffle_two_mismatch", ctx.scale(500, 5_000), 4, mismatch_strat, check_mismatch);

    // --- uniformity (parallel statistical driver) -------------------------------------------------
    let nseeds = ctx.scale(100, 2_000) as usize;
    let budget = ctx.scale(4_000_000, 20_000_000) as usize; // draws per case
    let mut cases = Vec::new();
    for (i, &n) in [2usize, 3, 4, 5, 7, 8, 16, 33, 64, 100, 257, 1000, 2000].iter().enumerate() {
        for rep in 0..2u64 {
            let m = (budget / (n * nseeds)).clamp(10, 200);
            cases.push(UniCase { n, m, nseeds, seed0: mix_seed(ctx.seed, "C19/uni", i as u64 * 2 + rep) });
        }
    }
    let res = par_map(&cases, 16, |_, c| eval_uniformity(c));
    for (c, r) in cases.iter().zip(res) {
        ctx.case("uniformity", &uni_class(c.n), true, Hx::new().json(c).finish());
        ctx.sample("uniformity", || json!(c));
        match r {
            Ok(o) => {
                ctx.worst("uniformity: max cell deviation / Bernstein bound", o.cell);
                ctx.worst("uniformity: (chi-square - dof) / (1.25 x Laurent-Massart bound - dof)", o.chi2);
                ctx.worst("uniformity: sup|F_N - F| / DKW eps", o.dkw);
            }
            Err(f) => {
                ctx.handle_fail("uniformity", &f, c);
            }
        }
    }
    ctx.note("uniformity_tests", json!(cases.len() * 3));
}

pub fn replay(ctx: &mut Ctx, sub: &str, v: Value) -> Option<R> {
    match sub {
        "bootstrap" => Some(check_bootstrap(ctx, &decode::<BootCase>(v)?)),
        "jackknife" => Some(check_jackknife(ctx, &decode::<JackCase>(v)?)),
        "shuffle" => Some(check_shuffle(ctx, &decode::<JackCase>(v)?)),
        "shuffle_two" => Some(check_shuffle_two(ctx, &decode::<TwoCase>(v)?)),
        "shuffle_two_mismatch" => Some(check_mismatch(ctx, &decode::<MismatchCase>(v)?)),
        "uniformity" => Some(check_uniformity(ctx, &decode::<UniCase>(v)?)),
        _ => None,
    }
}
