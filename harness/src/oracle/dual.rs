//! Forward-mode automatic differentiation with dual numbers (value + gradient w.r.t. up to `ND`
//! independent variables), the `Scalar` abstraction over which objective descriptions are interpreted,
//! and a running-error scalar (`Mag`) that bounds the rounding error of one evaluation.
//!
//! The library differentiates in *reverse* mode on a tape (`reverse::Var`); the reference differentiates
//! the same expression description in *forward* mode here, so that no derivative rule or traversal is
//! shared between the two sides.

/// Maximal number of independent variables (C10: quadratics up to 8 dimensions, LM up to 5 parameters).
pub const ND: usize = 8;

/// What an objective interpreter needs from a number type.
pub trait Scalar: Copy {
    fn add(self, o: Self) -> Self;
    fn sub(self, o: Self) -> Self;
    fn mul(self, o: Self) -> Self;
    fn div(self, o: Self) -> Self;
    /// self + c
    fn addc(self, c: f64) -> Self;
    /// self * c
    fn mulc(self, c: f64) -> Self;
    fn neg(self) -> Self;
    fn recip(self) -> Self;
    fn exp(self) -> Self;
    fn sin(self) -> Self;
    fn cos(self) -> Self;
    fn ln(self) -> Self;
    fn powi(self, n: i32) -> Self;
    fn value(self) -> f64;
}

impl Scalar for f64 {
    fn add(self, o: f64) -> f64 {
        self + o
    }
    fn sub(self, o: f64) -> f64 {
        self - o
    }
    fn mul(self, o: f64) -> f64 {
        self * o
    }
    fn div(self, o: f64) -> f64 {
        self / o
    }
    fn addc(self, c: f64) -> f64 {
        self + c
    }
    fn mulc(self, c: f64) -> f64 {
        self * c
    }
    fn neg(self) -> f64 {
        -self
    }
    fn recip(self) -> f64 {
        1.0 / self
    }
    fn exp(self) -> f64 {
        f64::exp(self)
    }
    fn sin(self) -> f64 {
        f64::sin(self)
    }
    fn cos(self) -> f64 {
        f64::cos(self)
    }
    fn ln(self) -> f64 {
        f64::ln(self)
    }
    fn powi(self, n: i32) -> f64 {
        f64::powi(self, n)
    }
    fn value(self) -> f64 {
        self
    }
}

/// v + Σ d[i]·ε_i with ε_i ε_j = 0.
#[derive(Clone, Copy, Debug)]
pub struct Dual {
    pub v: f64,
    pub d: [f64; ND],
}

impl Dual {
    pub fn constant(v: f64) -> Dual {
        Dual { v, d: [0.0; ND] }
    }
    /// The i-th independent variable with value v.
    pub fn var(v: f64, i: usize) -> Dual {
        let mut d = [0.0; ND];
        d[i] = 1.0;
        Dual { v, d }
    }
    pub fn vars(x: &[f64]) -> Vec<Dual> {
        assert!(x.len() <= ND);
        x.iter().enumerate().map(|(i, &v)| Dual::var(v, i)).collect()
    }
    /// g(self) with g'(self.v) = dg.
    #[inline]
    fn chain(self, v: f64, dg: f64) -> Dual {
        let mut d = [0.0; ND];
        for i in 0..ND {
            d[i] = self.d[i] * dg;
        }
        Dual { v, d }
    }
}

impl Scalar for Dual {
    fn add(self, o: Dual) -> Dual {
        let mut d = [0.0; ND];
        for i in 0..ND {
            d[i] = self.d[i] + o.d[i];
        }
        Dual { v: self.v + o.v, d }
    }
    fn sub(self, o: Dual) -> Dual {
        let mut d = [0.0; ND];
        for i in 0..ND {
            d[i] = self.d[i] - o.d[i];
        }
        Dual { v: self.v - o.v, d }
    }
    fn mul(self, o: Dual) -> Dual {
        let mut d = [0.0; ND];
        for i in 0..ND {
            d[i] = self.d[i] * o.v + self.v * o.d[i];
        }
        Dual { v: self.v * o.v, d }
    }
    fn div(self, o: Dual) -> Dual {
        // (a/b)' = (a' − (a/b) b') / b
        let q = self.v / o.v;
        let mut d = [0.0; ND];
        for i in 0..ND {
            d[i] = (self.d[i] - q * o.d[i]) / o.v;
        }
        Dual { v: q, d }
    }
    fn addc(self, c: f64) -> Dual {
        Dual { v: self.v + c, d: self.d }
    }
    fn mulc(self, c: f64) -> Dual {
        self.chain(self.v * c, c)
    }
    fn neg(self) -> Dual {
        self.chain(-self.v, -1.0)
    }
    fn recip(self) -> Dual {
        let r = 1.0 / self.v;
        self.chain(r, -r * r)
    }
    fn exp(self) -> Dual {
        let e = self.v.exp();
        self.chain(e, e)
    }
    fn sin(self) -> Dual {
        self.chain(self.v.sin(), self.v.cos())
    }
    fn cos(self) -> Dual {
        self.chain(self.v.cos(), -self.v.sin())
    }
    fn ln(self) -> Dual {
        self.chain(self.v.ln(), 1.0 / self.v)
    }
    fn powi(self, n: i32) -> Dual {
        if n == 0 {
            return Dual::constant(1.0);
        }
        self.chain(self.v.powi(n), n as f64 * self.v.powi(n - 1))
    }
    fn value(self) -> f64 {
        self.v
    }
}

/// Running error analysis: `v` is the computed value, `e` an upper bound (in units of the unit
/// round-off u = 2^-53, to first order) of the absolute rounding error accumulated in `v`, assuming each
/// elementary operation and each libm call is accurate to ≤ 1 ulp (libm: ≤ 2 u relative is assumed).
/// Used to derive the slack of comparisons between two evaluations of the same expression that round
/// differently (library tape vs. oracle).
#[derive(Clone, Copy, Debug)]
pub struct Mag {
    pub v: f64,
    pub e: f64,
}

impl Mag {
    pub fn exact(v: f64) -> Mag {
        Mag { v, e: 0.0 }
    }
}

impl Scalar for Mag {
    fn add(self, o: Mag) -> Mag {
        let v = self.v + o.v;
        Mag { v, e: self.e + o.e + v.abs() }
    }
    fn sub(self, o: Mag) -> Mag {
        let v = self.v - o.v;
        Mag { v, e: self.e + o.e + v.abs() }
    }
    fn mul(self, o: Mag) -> Mag {
        let v = self.v * o.v;
        Mag { v, e: self.e * o.v.abs() + o.e * self.v.abs() + v.abs() }
    }
    fn div(self, o: Mag) -> Mag {
        let v = self.v / o.v;
        // the library divides by multiplying with the reciprocal: two roundings
        Mag { v, e: self.e / o.v.abs() + o.e * v.abs() / o.v.abs() + 2.0 * v.abs() }
    }
    fn addc(self, c: f64) -> Mag {
        let v = self.v + c;
        Mag { v, e: self.e + v.abs() }
    }
    fn mulc(self, c: f64) -> Mag {
        let v = self.v * c;
        Mag { v, e: self.e * c.abs() + v.abs() }
    }
    fn neg(self) -> Mag {
        Mag { v: -self.v, e: self.e }
    }
    fn recip(self) -> Mag {
        let v = 1.0 / self.v;
        Mag { v, e: self.e * v * v + v.abs() }
    }
    fn exp(self) -> Mag {
        let v = self.v.exp();
        Mag { v, e: self.e * v + 2.0 * v }
    }
    fn sin(self) -> Mag {
        let v = self.v.sin();
        Mag { v, e: self.e * self.v.cos().abs() + 2.0 * v.abs() + 2.0 * self.e * f64::EPSILON }
    }
    fn cos(self) -> Mag {
        let v = self.v.cos();
        Mag { v, e: self.e * self.v.sin().abs() + 2.0 * v.abs() + 2.0 * self.e * f64::EPSILON }
    }
    fn ln(self) -> Mag {
        let v = self.v.ln();
        Mag { v, e: self.e / self.v.abs() + 2.0 * v.abs() }
    }
    fn powi(self, n: i32) -> Mag {
        let v = self.v.powi(n);
        let k = n.unsigned_abs() as f64;
        let dv = if n == 0 { 0.0 } else { (n as f64 * self.v.powi(n - 1)).abs() };
        Mag { v, e: self.e * dv + (k + 1.0) * v.abs() }
    }
    fn value(self) -> f64 {
        self.v
    }
}

/// Cheap self-test: derivatives of a composite expression against closed forms, and against a central
/// difference quotient.
pub fn self_test() -> bool {
    fn f<S: Scalar>(p: &[S]) -> S {
        // p0·exp(p1·0.7) / (1 + p2²) + sin(p0·p2) − ln(p1 + 3) + (p0 − p1)³ + cos(p2)/p0
        let a = p[0].mul(p[1].mulc(0.7).exp()).div(p[2].powi(2).addc(1.0));
        let b = p[0].mul(p[2]).sin();
        let c = p[1].addc(3.0).ln();
        let d = p[0].sub(p[1]).powi(3);
        let e = p[2].cos().mul(p[0].recip());
        a.add(b).sub(c).add(d).add(e).neg().neg()
    }
    let x = [1.3, -0.4, 0.8];
    let r = f(&Dual::vars(&x));
    let v = f::<f64>(&x);
    if (r.v - v).abs() > 1e-14 * v.abs().max(1.0) {
        return false;
    }
    // closed-form gradient
    let (p0, p1, p2) = (x[0], x[1], x[2]);
    let e7 = (0.7 * p1).exp();
    let den = 1.0 + p2 * p2;
    let g0 = e7 / den + p2 * (p0 * p2).cos() + 3.0 * (p0 - p1).powi(2) - p2.cos() / (p0 * p0);
    let g1 = 0.7 * p0 * e7 / den - 1.0 / (p1 + 3.0) - 3.0 * (p0 - p1).powi(2);
    let g2 = -2.0 * p2 * p0 * e7 / (den * den) + p0 * (p0 * p2).cos() - p2.sin() / p0;
    for (i, g) in [g0, g1, g2].iter().enumerate() {
        if (r.d[i] - g).abs() > 1e-13 * g.abs().max(1.0) {
            return false;
        }
        let h = 1e-6;
        let mut xp = x;
        let mut xm = x;
        xp[i] += h;
        xm[i] -= h;
        let fd = (f::<f64>(&xp) - f::<f64>(&xm)) / (2.0 * h);
        if (r.d[i] - fd).abs() > 1e-7 * g.abs().max(1.0) {
            return false;
        }
    }
    for i in 3..ND {
        if r.d[i] != 0.0 {
            return false;
        }
    }
    // the running error bound dominates the observed difference between two evaluation orders
    let m = f(&[Mag::exact(x[0]), Mag::exact(x[1]), Mag::exact(x[2])]);
    if !(m.v == v && m.e > 0.0 && m.e.is_finite()) {
        return false;
    }
    true
}
