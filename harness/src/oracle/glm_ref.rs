//! Reference pieces for the GLM property (C06): small dense Cholesky, family tables (inverse link,
//! dμ/dη, variance function, unit deviance), penalised score / Fisher information at a given β, a damped
//! reference fit used only to decide whether a finite MLE exists, and the harness's own response
//! simulators (splitmix64 uniforms → inverse-CDF / exact constructions). Nothing here calls the library.

pub const FAMS: [&str; 6] = ["Gaussian", "Bernoulli", "QuasiPoisson", "Poisson", "Gamma", "Exponential"];

pub fn has_dispersion(fam: u8) -> bool {
    matches!(fam, 0 | 2 | 4)
}

// ---------------------------------------------------------------------------------------------
// uniforms and simulators

/// splitmix64 stream; the seed comes from a proptest strategy.
pub struct Rng(pub u64);
impl Rng {
    pub fn next(&mut self) -> u64 {
        self.0 = self.0.wrapping_add(0x9E3779B97F4A7C15);
        let mut z = self.0;
        z = (z ^ (z >> 30)).wrapping_mul(0xBF58476D1CE4E5B9);
        z = (z ^ (z >> 27)).wrapping_mul(0x94D049BB133111EB);
        z ^ (z >> 31)
    }
    /// uniform on the open interval (0,1)
    pub fn u(&mut self) -> f64 {
        ((self.next() >> 11) as f64 + 0.5) / 9007199254740992.0
    }
    pub fn range(&mut self, lo: f64, hi: f64) -> f64 {
        lo + (hi - lo) * self.u()
    }
    pub fn below(&mut self, n: u64) -> u64 {
        ((self.u() * n as f64) as u64).min(n - 1)
    }
}

/// Inverse standard normal CDF (Acklam's rational approximation, relative error < 1.2e-9: far more
/// than a simulator needs).
pub fn norm_inv(p: f64) -> f64 {
    const A: [f64; 6] = [-3.969683028665376e+01, 2.209460984245205e+02, -2.759285104469687e+02, 1.383577518672690e+02, -3.066479806614716e+01, 2.506628277459239e+00];
    const B: [f64; 5] = [-5.447609879822406e+01, 1.615858368580409e+02, -1.556989798598866e+02, 6.680131188771972e+01, -1.328068155288572e+01];
    const C: [f64; 6] = [-7.784894002430293e-03, -3.223964580411365e-01, -2.400758277161838e+00, -2.549732539343734e+00, 4.374664141464968e+00, 2.938163982698783e+00];
    const D: [f64; 4] = [7.784695709041462e-03, 3.224671290700398e-01, 2.445134137142996e+00, 3.754408661907416e+00];
    let pl = 0.02425;
    if p < pl {
        let q = (-2.0 * p.ln()).sqrt();
        (((((C[0] * q + C[1]) * q + C[2]) * q + C[3]) * q + C[4]) * q + C[5]) / ((((D[0] * q + D[1]) * q + D[2]) * q + D[3]) * q + 1.0)
    } else if p <= 1.0 - pl {
        let q = p - 0.5;
        let r = q * q;
        (((((A[0] * r + A[1]) * r + A[2]) * r + A[3]) * r + A[4]) * r + A[5]) * q / (((((B[0] * r + B[1]) * r + B[2]) * r + B[3]) * r + B[4]) * r + 1.0)
    } else {
        let q = (-2.0 * (1.0 - p).ln()).sqrt();
        -(((((C[0] * q + C[1]) * q + C[2]) * q + C[3]) * q + C[4]) * q + C[5]) / ((((D[0] * q + D[1]) * q + D[2]) * q + D[3]) * q + 1.0)
    }
}

/// Poisson(μ) by inversion of the CDF with sequential search (μ ≤ ~100 here).
pub fn poisson_inv(u: f64, mu: f64) -> f64 {
    let mut k = 0.0f64;
    let mut p = (-mu).exp();
    let mut f = p;
    while u > f && k < 2000.0 {
        k += 1.0;
        p *= mu / k;
        f += p;
    }
    k
}

/// One response from the family with mean `mu`; `aux` selects σ / the over-dispersion factor / the shape.
pub fn simulate(fam: u8, mu: f64, aux: u8, rng: &mut Rng) -> f64 {
    match fam {
        0 => {
            let sigma = [0.3, 1.0, 2.0][(aux % 3) as usize];
            mu + sigma * norm_inv(rng.u())
        }
        1 => {
            if rng.u() < mu {
                1.0
            } else {
                0.0
            }
        }
        2 => {
            // over-dispersed counts with mean μ and variance d·μ: d·Poisson(μ/d)
            let d = [1.0, 2.0, 3.0][(aux % 3) as usize];
            d * poisson_inv(rng.u(), mu / d)
        }
        3 => poisson_inv(rng.u(), mu),
        4 => {
            // Gamma with integer shape k and mean μ: (μ/k)·Σ_{j<k} −ln U_j
            let k = [1usize, 2, 3, 5][(aux % 4) as usize];
            let mut s = 0.0;
            for _ in 0..k {
                s -= rng.u().ln();
            }
            mu * s / k as f64
        }
        _ => -mu * rng.u().ln(),
    }
}

// ---------------------------------------------------------------------------------------------
// family tables (links as documented by the library: identity, logit, log, log, log, log)

#[inline]
pub fn inv_link(fam: u8, eta: f64) -> f64 {
    match fam {
        0 => eta,
        1 => {
            if eta >= 0.0 {
                1.0 / (1.0 + (-eta).exp())
            } else {
                let e = eta.exp();
                e / (1.0 + e)
            }
        }
        _ => eta.exp(),
    }
}

/// (μ, dμ/dη, V(μ))
#[inline]
pub fn mean_fns(fam: u8, eta: f64) -> (f64, f64, f64) {
    let mu = inv_link(fam, eta);
    match fam {
        0 => (mu, 1.0, 1.0),
        1 => {
            // μ(1−μ) without cancellation for large |η|
            let v = if eta >= 0.0 {
                let e = (-eta).exp();
                e / ((1.0 + e) * (1.0 + e))
            } else {
                let e = eta.exp();
                e / ((1.0 + e) * (1.0 + e))
            };
            (mu, v, v)
        }
        2 | 3 => (mu, mu, mu),
        _ => (mu, mu, mu * mu),
    }
}

/// Unit deviance d(y, μ) of the family (the textbook definitions; Gaussian: (y−μ)²). `eta` is passed so
/// that the Bernoulli log terms can be evaluated without cancellation.
#[inline]
pub fn unit_deviance(fam: u8, y: f64, mu: f64, eta: f64) -> f64 {
    match fam {
        0 => (y - mu) * (y - mu),
        1 => {
            // −2[y ln μ + (1−y) ln(1−μ)], ln μ = −ln(1+e^{−η}), ln(1−μ) = −ln(1+e^{η})
            let softplus = |t: f64| if t > 0.0 { t + (-t).exp().ln_1p() } else { t.exp().ln_1p() };
            2.0 * (y * softplus(-eta) + (1.0 - y) * softplus(eta))
        }
        2 | 3 => {
            if y == 0.0 {
                2.0 * mu
            } else {
                2.0 * (y * (y / mu).ln() - (y - mu))
            }
        }
        _ => 2.0 * ((y - mu) / mu - (y / mu).ln()),
    }
}

// ---------------------------------------------------------------------------------------------
// dense Cholesky for p ≤ ~8

/// Lower Cholesky factor of the symmetric p×p matrix `a` (row-major); None if a pivot is not positive.
pub fn chol(a: &[f64], p: usize) -> Option<Vec<f64>> {
    let mut l = vec![0.0; p * p];
    for j in 0..p {
        let mut d = a[j * p + j];
        for k in 0..j {
            d -= l[j * p + k] * l[j * p + k];
        }
        if !(d > 0.0) || !d.is_finite() {
            return None;
        }
        let dj = d.sqrt();
        l[j * p + j] = dj;
        for i in j + 1..p {
            let mut s = a[i * p + j];
            for k in 0..j {
                s -= l[i * p + k] * l[j * p + k];
            }
            l[i * p + j] = s / dj;
        }
    }
    Some(l)
}

pub fn chol_solve(l: &[f64], p: usize, b: &[f64]) -> Vec<f64> {
    let mut z = b.to_vec();
    for i in 0..p {
        let mut s = z[i];
        for k in 0..i {
            s -= l[i * p + k] * z[k];
        }
        z[i] = s / l[i * p + i];
    }
    for i in (0..p).rev() {
        let mut s = z[i];
        for k in i + 1..p {
            s -= l[k * p + i] * z[k];
        }
        z[i] = s / l[i * p + i];
    }
    z
}

pub fn chol_inverse(l: &[f64], p: usize) -> Vec<f64> {
    let mut inv = vec![0.0; p * p];
    for j in 0..p {
        let mut e = vec![0.0; p];
        e[j] = 1.0;
        let col = chol_solve(l, p, &e);
        for i in 0..p {
            inv[i * p + j] = col[i];
        }
    }
    inv
}

/// Smallest ratio (pivot² / diagonal entry): a scale-free measure of how close the matrix is to singular.
pub fn chol_min_rel_pivot(a: &[f64], l: &[f64], p: usize) -> f64 {
    (0..p).map(|j| l[j * p + j] * l[j * p + j] / a[j * p + j]).fold(f64::INFINITY, f64::min)
}

// ---------------------------------------------------------------------------------------------
// score, information, deviance at β

pub struct Problem<'a> {
    pub fam: u8,
    pub n: usize,
    pub p: usize,
    /// row-major n×p, first column 1
    pub x: &'a [f64],
    pub y: &'a [f64],
    pub w: Option<&'a [f64]>,
    pub off: Option<&'a [f64]>,
    pub alpha: f64,
}

pub struct AtBeta {
    pub eta: Vec<f64>,
    pub mu: Vec<f64>,
    /// gradient of D_w/2 + (α/2)‖β₁..‖²
    pub g: Vec<f64>,
    /// Xᵀ diag(w dμ²/V) X (no penalty)
    pub info: Vec<f64>,
    /// info + α·diag(0,1,…,1)
    pub h: Vec<f64>,
    /// Σ d(yᵢ, μᵢ)
    pub dev_u: f64,
    /// Σ wᵢ d(yᵢ, μᵢ)
    pub dev_w: f64,
    /// smallest working weight w dμ²/V
    pub wmin: f64,
}

impl<'a> Problem<'a> {
    pub fn eta(&self, beta: &[f64]) -> Vec<f64> {
        let p = self.p;
        (0..self.n)
            .map(|i| {
                let mut e = 0.0;
                for j in 0..p {
                    e += self.x[i * p + j] * beta[j];
                }
                e + self.off.map(|o| o[i]).unwrap_or(0.0)
            })
            .collect()
    }

    pub fn at(&self, beta: &[f64]) -> AtBeta {
        let (n, p) = (self.n, self.p);
        let eta = self.eta(beta);
        let mut mu = vec![0.0; n];
        let mut g = vec![0.0; p];
        let mut info = vec![0.0; p * p];
        let (mut dev_u, mut dev_w) = (0.0, 0.0);
        let mut wmin = f64::INFINITY;
        for i in 0..n {
            let (m, dm, v) = mean_fns(self.fam, eta[i]);
            mu[i] = m;
            let wi = self.w.map(|w| w[i]).unwrap_or(1.0);
            let r = wi * (self.y[i] - m) * dm / v;
            let ww = wi * dm * dm / v;
            wmin = wmin.min(ww);
            let d = unit_deviance(self.fam, self.y[i], m, eta[i]);
            dev_u += d;
            dev_w += wi * d;
            let xi = &self.x[i * p..(i + 1) * p];
            for a in 0..p {
                g[a] -= xi[a] * r;
                for b in 0..=a {
                    info[a * p + b] += ww * xi[a] * xi[b];
                }
            }
        }
        for a in 0..p {
            for b in 0..a {
                info[b * p + a] = info[a * p + b];
            }
        }
        let mut h = info.clone();
        for j in 1..p {
            g[j] += self.alpha * beta[j];
            h[j * p + j] += self.alpha;
        }
        AtBeta { eta, mu, g, info, h, dev_u, dev_w, wmin }
    }

    /// penalised weighted deviance D_w + α‖β₁..‖²
    pub fn objective(&self, beta: &[f64]) -> f64 {
        let eta = self.eta(beta);
        let mut d = 0.0;
        for i in 0..self.n {
            let m = inv_link(self.fam, eta[i]);
            d += self.w.map(|w| w[i]).unwrap_or(1.0) * unit_deviance(self.fam, self.y[i], m, eta[i]);
        }
        d + self.alpha * beta[1..].iter().map(|b| b * b).sum::<f64>()
    }

    /// Damped Fisher scoring from the link of the weighted mean response. Returns the (penalised) MLE when
    /// it exists with ‖β‖∞ ≤ `bmax` and the design has full numerical rank; None otherwise. Used only to
    /// decide whether the case lies inside the property's quantifier ("so that the MLE exists") and, for
    /// the Gaussian family, as the explicit least-squares solution.
    pub fn reference_fit(&self, bmax: f64) -> Option<Vec<f64>> {
        let (n, p) = (self.n, self.p);
        let (mut sw, mut swy) = (0.0, 0.0);
        for i in 0..n {
            let wi = self.w.map(|w| w[i]).unwrap_or(1.0);
            sw += wi;
            swy += wi * self.y[i];
        }
        let ybar = swy / sw;
        let mut beta = vec![0.0; p];
        beta[0] = match self.fam {
            0 => ybar,
            1 => {
                let m = ybar.clamp(0.02, 0.98);
                (m / (1.0 - m)).ln()
            }
            _ => ybar.max(1e-3).ln(),
        };
        if let Some(o) = self.off {
            // centre the offsets out of the starting intercept
            beta[0] -= o.iter().sum::<f64>() / n as f64;
        }
        let mut obj = self.objective(&beta);
        if !obj.is_finite() {
            return None;
        }
        for _ in 0..80 {
            let a = self.at(&beta);
            let l = chol(&a.h, p)?;
            if chol_min_rel_pivot(&a.h, &l, p) < 1e-9 {
                return None;
            }
            let step = chol_solve(&l, p, &a.g);
            let dec: f64 = step.iter().zip(&a.g).map(|(s, g)| s * g).sum();
            if !(dec.is_finite()) {
                return None;
            }
            if dec <= 1e-13 * obj.abs().max(1.0) {
                return Some(beta);
            }
            let mut t = 1.0;
            let mut accepted = false;
            while t > 1e-6 {
                let cand: Vec<f64> = beta.iter().zip(&step).map(|(b, s)| b - t * s).collect();
                let oc = self.objective(&cand);
                if oc.is_finite() && oc <= obj + 1e-12 * obj.abs().max(1.0) {
                    beta = cand;
                    obj = oc;
                    accepted = true;
                    break;
                }
                t *= 0.5;
            }
            if !accepted {
                // cannot improve any more: accept as converged if the decrement is negligible
                return if dec <= 1e-9 * obj.abs().max(1.0) { Some(beta) } else { None };
            }
            if beta.iter().any(|b| b.abs() > bmax) {
                return None;
            }
        }
        None
    }
}

pub fn self_test() -> bool {
    // Cholesky on a known matrix, inverse normal at known points, Poisson inversion
    let a = [4.0, 2.0, 2.0, 3.0];
    let l = match chol(&a, 2) {
        Some(l) => l,
        None => return false,
    };
    let x = chol_solve(&l, 2, &[2.0, 1.0]);
    // 4x+2y=2, 2x+3y=1 → x=0.5,y=0
    if (x[0] - 0.5).abs() > 1e-15 || x[1].abs() > 1e-15 {
        return false;
    }
    let inv = chol_inverse(&l, 2);
    if (inv[0] - 0.375).abs() > 1e-15 || (inv[1] + 0.25).abs() > 1e-15 || (inv[3] - 0.5).abs() > 1e-15 {
        return false;
    }
    if (norm_inv(0.975) - 1.959963984540054).abs() > 1e-8 || norm_inv(0.5).abs() > 1e-12 || (norm_inv(0.001) + 3.090232306167813).abs() > 1e-8 {
        return false;
    }
    // P(Poisson(2) ≤ 1) = 3e^{-2} = 0.406
    if poisson_inv(0.40, 2.0) != 1.0 || poisson_inv(0.41, 2.0) != 2.0 || poisson_inv(0.1, 2.0) != 0.0 {
        return false;
    }
    // unit deviances at simple points
    if (unit_deviance(3, 2.0, 1.0, 0.0) - 2.0 * (2.0 * 2f64.ln() - 1.0)).abs() > 1e-15 {
        return false;
    }
    if (unit_deviance(1, 1.0, 0.5, 0.0) - 2.0 * 2f64.ln()).abs() > 1e-15 {
        return false;
    }
    if (unit_deviance(4, 2.0, 1.0, 0.0) - 2.0 * (1.0 - 2f64.ln())).abs() > 1e-15 {
        return false;
    }
    true
}
