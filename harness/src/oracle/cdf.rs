//! Independent cumulative distribution functions for the sampler checks (C03).
//!
//! Nothing here calls the library under test. Building blocks: glibc `erfc`, `lgamma_r`, `expm1`;
//! the regularised incomplete gamma functions P(a,x), Q(a,x) (power series for x < a+1, modified
//! Lentz continued fraction otherwise) and the regularised incomplete beta function I_x(a,b)
//! (modified Lentz continued fraction with the usual symmetry switch). Absolute accuracy needed by the
//! DKW check is ~1e-6 (band >= 1.9e-3); the self-test demands 2e-10 against SciPy reference values and
//! 1e-11 for the internal identities.

extern "C" {
    fn erfc(x: f64) -> f64;
    fn lgamma_r(x: f64, sign: *mut i32) -> f64;
    fn expm1(x: f64) -> f64;
}

/// ln |Γ(x)| from glibc (re-entrant variant: no global `signgam`).
pub fn lgam(x: f64) -> f64 {
    let mut s: i32 = 0;
    unsafe { lgamma_r(x, &mut s as *mut i32) }
}

/// Standard normal CDF Φ(z) = erfc(−z/√2)/2.
pub fn norm_cdf(z: f64) -> f64 {
    0.5 * unsafe { erfc(-z * std::f64::consts::FRAC_1_SQRT_2) }
}

const TINY: f64 = 1e-300;
const MAXIT: usize = 2_000_000;

/// ln of x^a e^{-x} / Γ(a), `lga` = ln Γ(a)
fn ln_gamma_front(a: f64, x: f64, lga: f64) -> f64 {
    a * x.ln() - x - lga
}

/// Power series for P(a,x); converges for every x > 0, fast for x < a + 1.
pub fn gamma_p_series(a: f64, x: f64) -> f64 {
    gamma_p_series_lg(a, x, lgam(a))
}

fn gamma_p_series_lg(a: f64, x: f64, lga: f64) -> f64 {
    let mut ap = a;
    let mut term = 1.0 / a;
    let mut sum = term;
    for _ in 0..MAXIT {
        ap += 1.0;
        term *= x / ap;
        sum += term;
        if term.abs() < sum.abs() * 1e-17 {
            return (sum.ln() + ln_gamma_front(a, x, lga)).exp();
        }
    }
    f64::NAN
}

/// Continued fraction for Q(a,x) (modified Lentz); converges for x > 0, fast for x > a + 1.
pub fn gamma_q_cf(a: f64, x: f64) -> f64 {
    gamma_q_cf_lg(a, x, lgam(a))
}

fn gamma_q_cf_lg(a: f64, x: f64, lga: f64) -> f64 {
    let mut b = x + 1.0 - a;
    let mut c = 1.0 / TINY;
    let mut d = if b.abs() < TINY { 1.0 / TINY } else { 1.0 / b };
    let mut h = d;
    for i in 1..MAXIT {
        let fi = i as f64;
        let an = -fi * (fi - a);
        b += 2.0;
        d = an * d + b;
        if d.abs() < TINY {
            d = TINY;
        }
        c = b + an / c;
        if c.abs() < TINY {
            c = TINY;
        }
        d = 1.0 / d;
        let del = d * c;
        h *= del;
        if (del - 1.0).abs() < 1e-16 {
            return (ln_gamma_front(a, x, lga)).exp() * h;
        }
    }
    f64::NAN
}

/// (P(a,x), Q(a,x)) for a > 0.
pub fn gamma_pq(a: f64, x: f64) -> (f64, f64) {
    gamma_pq_lg(a, x, lgam(a))
}

/// Same with ln Γ(a) supplied by the caller (constant per distribution).
pub fn gamma_pq_lg(a: f64, x: f64, lga: f64) -> (f64, f64) {
    if !(x > 0.0) {
        return (0.0, 1.0);
    }
    if x == f64::INFINITY {
        return (1.0, 0.0);
    }
    if x < a + 1.0 {
        let p = gamma_p_series_lg(a, x, lga).min(1.0);
        (p, 1.0 - p)
    } else {
        let q = gamma_q_cf_lg(a, x, lga).min(1.0);
        (1.0 - q, q)
    }
}

fn beta_cf(a: f64, b: f64, x: f64) -> f64 {
    let qab = a + b;
    let qap = a + 1.0;
    let qam = a - 1.0;
    let mut c = 1.0;
    let mut d = 1.0 - qab * x / qap;
    if d.abs() < TINY {
        d = TINY;
    }
    d = 1.0 / d;
    let mut h = d;
    for m in 1..MAXIT {
        let fm = m as f64;
        let m2 = 2.0 * fm;
        let aa = fm * (b - fm) * x / ((qam + m2) * (a + m2));
        d = 1.0 + aa * d;
        if d.abs() < TINY {
            d = TINY;
        }
        c = 1.0 + aa / c;
        if c.abs() < TINY {
            c = TINY;
        }
        d = 1.0 / d;
        h *= d * c;
        let aa = -(a + fm) * (qab + fm) * x / ((a + m2) * (qap + m2));
        d = 1.0 + aa * d;
        if d.abs() < TINY {
            d = TINY;
        }
        c = 1.0 + aa / c;
        if c.abs() < TINY {
            c = TINY;
        }
        d = 1.0 / d;
        let del = d * c;
        h *= del;
        if (del - 1.0).abs() < 1e-16 {
            return h;
        }
    }
    f64::NAN
}

/// Regularised incomplete beta I_x(a,b); `xc` must be 1 − x (passed separately so that callers
/// which know 1 − x without cancellation can supply it).
pub fn beta_inc(a: f64, b: f64, x: f64, xc: f64) -> f64 {
    beta_inc_lb(a, b, x, xc, lbeta(a, b))
}

/// ln B(a,b)
pub fn lbeta(a: f64, b: f64) -> f64 {
    lgam(a) + lgam(b) - lgam(a + b)
}

/// Same with ln B(a,b) supplied by the caller (constant per distribution).
pub fn beta_inc_lb(a: f64, b: f64, x: f64, xc: f64, lb: f64) -> f64 {
    if !(x > 0.0) {
        return 0.0;
    }
    if !(xc > 0.0) {
        return 1.0;
    }
    let ln_front = a * x.ln() + b * xc.ln() - lb;
    let r = if x < (a + 1.0) / (a + b + 2.0) {
        (ln_front).exp() * beta_cf(a, b, x) / a
    } else {
        1.0 - (ln_front).exp() * beta_cf(b, a, xc) / b
    };
    r.max(0.0).min(1.0)
}

// ---------------------------------------------------------------------------------------------
// Distribution functions. All return F(x) = P(X <= x).

pub fn normal_cdf(mu: f64, sigma: f64, x: f64) -> f64 {
    if sigma == 0.0 {
        return if x >= mu { 1.0 } else { 0.0 };
    }
    norm_cdf((x - mu) / sigma)
}

/// Gamma with shape `a` and *rate* `rate`.
pub fn gamma_cdf(a: f64, rate: f64, x: f64) -> f64 {
    gamma_pq(a, rate * x).0
}

/// Gamma CDF with ln Γ(a) precomputed.
pub fn gamma_cdf_lg(a: f64, rate: f64, x: f64, lga: f64) -> f64 {
    gamma_pq_lg(a, rate * x, lga).0
}

pub fn chi2_cdf(dof: f64, x: f64) -> f64 {
    gamma_pq(0.5 * dof, 0.5 * x).0
}

pub fn beta_cdf(a: f64, b: f64, x: f64) -> f64 {
    beta_cdf_lb(a, b, x, lbeta(a, b))
}

pub fn beta_cdf_lb(a: f64, b: f64, x: f64, lb: f64) -> f64 {
    if x <= 0.0 {
        return 0.0;
    }
    if x >= 1.0 {
        return 1.0;
    }
    beta_inc_lb(a, b, x, 1.0 - x, lb)
}

pub fn t_cdf(nu: f64, t: f64) -> f64 {
    t_cdf_lb(nu, t, lbeta(0.5 * nu, 0.5))
}

/// Student t CDF with ln B(nu/2, 1/2) precomputed.
pub fn t_cdf_lb(nu: f64, t: f64, lb: f64) -> f64 {
    if t == 0.0 {
        return 0.5;
    }
    // x = nu / (nu + t^2), xc = t^2 / (nu + t^2) without overflow or cancellation
    let (x, xc) = if t.abs() <= nu.sqrt() {
        let r = t * t / nu;
        (1.0 / (1.0 + r), r / (1.0 + r))
    } else {
        let r = nu / t.abs() / t.abs();
        (r / (1.0 + r), 1.0 / (1.0 + r))
    };
    let tail = 0.5 * beta_inc_lb(0.5 * nu, 0.5, x, xc, lb);
    if t > 0.0 {
        1.0 - tail
    } else {
        tail
    }
}

pub fn exp_cdf(rate: f64, x: f64) -> f64 {
    if x <= 0.0 {
        0.0
    } else {
        -unsafe { expm1(-rate * x) }
    }
}

pub fn gumbel_cdf(mu: f64, beta: f64, x: f64) -> f64 {
    (-(-(x - mu) / beta).exp()).exp()
}

pub fn pareto_cdf(alpha: f64, minval: f64, x: f64) -> f64 {
    if x <= minval {
        0.0
    } else {
        -unsafe { expm1(alpha * (minval / x).ln()) }
    }
}

pub fn uniform_cdf(lo: f64, hi: f64, x: f64) -> f64 {
    if lo == hi {
        return if x >= lo { 1.0 } else { 0.0 };
    }
    if x <= lo {
        0.0
    } else if x >= hi {
        1.0
    } else {
        (x - lo) / (hi - lo)
    }
}

/// Discrete uniform on the integers lo..=hi.
pub fn duniform_cdf(lo: f64, hi: f64, x: f64) -> f64 {
    let k = x.floor();
    if k < lo {
        0.0
    } else if k >= hi {
        1.0
    } else {
        (k - lo + 1.0) / (hi - lo + 1.0)
    }
}

pub fn bernoulli_cdf(p: f64, x: f64) -> f64 {
    if x < 0.0 {
        0.0
    } else if x < 1.0 {
        1.0 - p
    } else {
        1.0
    }
}

/// P(X <= x) for X ~ Poisson(lam) = Q(floor(x) + 1, lam).
pub fn poisson_cdf(lam: f64, x: f64) -> f64 {
    let k = x.floor();
    if k < 0.0 {
        return 0.0;
    }
    gamma_pq(k + 1.0, lam).1
}

/// P(X <= x) for X ~ Binomial(n, p) = I_{1-p}(n - k, k + 1), k = floor(x).
pub fn binom_cdf(n: f64, p: f64, x: f64) -> f64 {
    let k = x.floor();
    if k < 0.0 {
        return 0.0;
    }
    if k >= n {
        return 1.0;
    }
    if p <= 0.0 {
        return 1.0;
    }
    if p >= 1.0 {
        return 0.0;
    }
    beta_inc(n - k, k + 1.0, 1.0 - p, p)
}

// ---------------------------------------------------------------------------------------------

fn close(a: f64, b: f64, tol: f64) -> bool {
    (a - b).abs() <= tol
}

/// Cheap self-test: SciPy 1.17 reference values (generated once with `python3-vt`) and internal
/// complement / recurrence / summation identities.
macro_rules! chk {
    ($ok:ident, $e:expr) => {
        if !($e) {
            // visible only with VCHECK_KEEP_STDERR=1 (stderr is otherwise /dev/null)
            eprintln!("cdf self-test failed at line {}: {}", line!(), stringify!($e));
            $ok = false;
        }
    };
}

pub fn self_test() -> bool {
    let mut ok = true;
    let tol: f64 = 2e-10;

    // scipy.special.gammainc / gammaincc
    const G: &[(f64, f64, f64, f64)] = &[
        (0.05, 1e-10, 3.24834494518134231e-01, 6.75165505481865713e-01),
        (0.05, 0.3, 9.54381121874345095e-01, 4.56188781256542386e-02),
        (0.2, 0.0001, 1.72611711236509091e-01, 8.27388288763490909e-01),
        (0.5, 0.5, 6.82689492137085852e-01, 3.17310507862911151e-01),
        (0.9, 3.0, 9.59327904003688503e-01, 4.06720959963115039e-02),
        (1.0, 1.0, 6.32120558828557666e-01, 3.67879441171442445e-01),
        (2.5, 0.7, 7.56867271983330536e-02, 9.24313272801666974e-01),
        (2.5, 9.0, 9.97053595412119686e-01, 2.94640458788029231e-03),
        (30.0, 22.0, 6.02173839985266288e-02, 9.39782616001473392e-01),
        (30.0, 45.0, 9.92662800702203474e-01, 7.33719929779656777e-03),
        (500.0, 470.0, 8.77932363548293293e-02, 9.12206763645170615e-01),
        (500.0, 540.0, 9.60632357593587782e-01, 3.93676424064123009e-02),
        (10000.0, 9900.0, 1.58651192193564633e-01, 8.41348807806435395e-01),
        (100000.0, 100300.0, 8.28636311251207514e-01, 1.71363688748792431e-01),
        (1000000.0, 1000500.0, 6.91550475771497197e-01, 3.08449524228502803e-01),
        (143.0, 130.0, 1.37015549712680679e-01, 8.62984450287319405e-01),
    ];
    for &(a, x, p, q) in G {
        let (pp, qq) = gamma_pq(a, x);
        // the prefactor exp(a ln x − x − lnΓ(a)) loses ~a·1e-16 relative accuracy
        let t = tol.max(a * 2e-15);
        chk!(ok, close(pp, p, t) && close(qq, q, t));
        // both methods agree wherever both converge quickly enough (the continued fraction needs
        // ~1/x terms for small x, the series ~x terms for large x)
        if a <= 1000.0 && x >= 0.2 {
            chk!(ok, close(gamma_p_series(a, x) + gamma_q_cf(a, x), 1.0, 1e-11));
        }
    }
    // recurrence P(a+1,x) = P(a,x) − x^a e^{−x}/Γ(a+1)
    for &(a, x) in &[(0.05, 0.01), (0.3, 0.2), (0.5, 2.0), (1.0, 0.3), (7.5, 9.0), (150.0, 149.0)] {
        let lhs = gamma_pq(a + 1.0, x).0;
        let rhs = gamma_pq(a, x).0 - (a * x.ln() - x - lgam(a + 1.0)).exp();
        chk!(ok, close(lhs, rhs, 1e-11));
    }

    // scipy.special.betainc
    const B: &[(f64, f64, f64, f64)] = &[
        (0.05, 0.05, 0.5, 4.99999999999999889e-01),
        (0.05, 0.05, 1e-12, 1.26076737124718258e-01),
        (0.2, 3.0, 0.01, 5.23754570866227565e-01),
        (0.5, 0.5, 0.3, 3.69010119565545358e-01),
        (0.9, 0.9, 0.99, 9.85630591142970469e-01),
        (1.0, 1.0, 0.25, 2.50000000000000000e-01),
        (2.0, 5.0, 0.3, 5.79825000000000257e-01),
        (30.0, 0.5, 0.97, 1.78217544970241476e-01),
        (500.0, 500.0, 0.52, 8.97082472693004007e-01),
        (0.25, 0.5, 0.9, 8.76212543990063430e-01),
        (100.0, 0.5, 0.999, 6.55043516324429365e-01),
        (100000.0, 100001.0, 0.5, 5.00892060942998096e-01),
        (999901.0, 100.0, 0.9999, 4.86699208555511242e-01),
        (40.0, 61.0, 0.4, 5.37924659114036752e-01),
        (1000000.0, 3.0, 0.999997, 4.23188400818300281e-01),
    ];
    for &(a, b, x, v) in B {
        let t = tol.max((a + b) * 2e-14);
        chk!(ok, close(beta_inc(a, b, x, 1.0 - x), v, t));
        // complement I_x(a,b) + I_{1−x}(b,a) = 1
        chk!(ok, close(beta_inc(a, b, x, 1.0 - x) + beta_inc(b, a, 1.0 - x, x), 1.0, 1e-11));
    }
    // recurrence I_x(a+1,b) = I_x(a,b) − x^a (1−x)^b / (a B(a,b))
    for &(a, b, x) in &[(0.05, 0.2, 0.3), (0.5, 0.5, 0.7), (3.0, 0.4, 0.2), (12.0, 7.0, 0.6), (0.3, 40.0, 0.01)] {
        let xc = 1.0 - x;
        let lhs = beta_inc(a + 1.0, b, x, xc);
        let rhs = beta_inc(a, b, x, xc) - (a * x.ln() + b * xc.ln() - (lgam(a) + lgam(b) - lgam(a + b))).exp() / a;
        chk!(ok, close(lhs, rhs, 1e-11));
    }

    // scipy.stats.norm.cdf
    for &(z, v) in &[
        (-8.0, 6.22096057427174049e-16),
        (-3.0, 1.34989803163009328e-03),
        (-0.5, 3.08537538725986882e-01),
        (0.0, 0.5),
        (1.25, 8.94350226333144649e-01),
        (4.0, 9.99968328758166880e-01),
    ] {
        chk!(ok, close(norm_cdf(z), v, 1e-14));
        chk!(ok, close(norm_cdf(z) + norm_cdf(-z), 1.0, 1e-15));
    }
    // scipy.stats.t.cdf
    for &(nu, t, v) in &[
        (0.5, -3.0, 1.83654077992971704e-01),
        (0.5, 1000000.0, 9.99679299024585855e-01),
        (1.0, 1.0, 0.75),
        (1.9, -0.3, 3.96897330304424478e-01),
        (2.0, 2.5, 9.35194139889244602e-01),
        (5.0, -4.0, 5.16170774041572501e-03),
        (200.0, 1.0, 8.40740576045126642e-01),
        (0.2, -1e30, 3.75931017921268915e-07),
        (0.2, 0.001, 5.00197478456743450e-01),
    ] {
        chk!(ok, close(t_cdf(nu, t), v, tol));
        chk!(ok, close(t_cdf(nu, t) + t_cdf(nu, -t), 1.0, 1e-12));
    }
    // t(1) is Cauchy: F(t) = 1/2 + atan(t)/π
    for &t in &[-50.0, -1.0, 0.1, 3.0, 1e8] {
        chk!(ok, close(t_cdf(1.0, t), 0.5 + f64::atan(t) / std::f64::consts::PI, 1e-12));
    }
    // scipy.stats.poisson.cdf
    for &(lam, k, v) in &[
        (0.001, 0.0, 9.99000499833375022e-01),
        (0.5, 1.0, 9.09795989568950136e-01),
        (9.99, 10.0, 5.84290848463989376e-01),
        (42.0, 35.0, 1.57653227516686284e-01),
        (140.0, 150.0, 8.13422329221616613e-01),
        (200.0, 180.0, 8.22289048366097036e-02),
        (1000.0, 1010.0, 6.31836954138592088e-01),
        (100000.0, 99800.0, 2.64165074658800014e-01),
        (1000000.0, 1000900.0, 8.16081276393780586e-01),
    ] {
        chk!(ok, close(poisson_cdf(lam, k), v, tol.max(lam * 2e-15)));
    }
    // Poisson CDF against direct summation of the mass function
    for &lam in &[0.3, 9.99, 42.0, 200.0] {
        let mut acc = 0.0;
        for k in 0..400 {
            let kf = k as f64;
            acc += (kf * f64::ln(lam) - lam - lgam(kf + 1.0)).exp();
            chk!(ok, close(poisson_cdf(lam, kf), acc, 1e-11));
            chk!(ok, close(poisson_cdf(lam, kf + 0.5), acc, 1e-11));
        }
    }
    // scipy.stats.binom.cdf
    for &(n, p, k, v) in &[
        (1.0, 0.5, 0.0, 0.5),
        (10.0, 0.3, 3.0, 6.49610718400000176e-01),
        (60.0, 0.5, 28.0, 3.49441713810002885e-01),
        (61.0, 0.5, 33.0, 7.78686997526764291e-01),
        (1000.0, 0.9, 905.0, 7.15779841871273970e-01),
        (100000.0, 0.0002, 18.0, 3.81405068655669144e-01),
        (1000000.0, 0.4, 400300.0, 7.30205779017564560e-01),
        (50.0, 0.97, 47.0, 1.89201924630278989e-01),
    ] {
        chk!(ok, close(binom_cdf(n, p, k), v, tol.max(n * 2e-14)));
    }
    // binomial CDF against direct summation
    for &(n, p) in &[(7.0, 0.3), (61.0, 0.5), (200.0, 0.93), (300.0, 0.02)] {
        let mut acc = 0.0;
        for k in 0..=(n as usize) {
            let kf = k as f64;
            acc += (lgam(n + 1.0) - lgam(kf + 1.0) - lgam(n - kf + 1.0) + kf * f64::ln(p) + (n - kf) * f64::ln(1.0 - p)).exp();
            chk!(ok, close(binom_cdf(n, p, kf), acc.min(1.0), 1e-11));
        }
    }
    chk!(ok, binom_cdf(5.0, 0.0, 0.0) == 1.0 && binom_cdf(5.0, 1.0, 4.0) == 0.0 && binom_cdf(5.0, 1.0, 5.0) == 1.0 && binom_cdf(0.0, 0.3, 0.0) == 1.0);
    chk!(ok, binom_cdf(5.0, 0.3, -1.0) == 0.0 && poisson_cdf(2.0, -0.5) == 0.0);
    // scipy.stats.chi2.cdf
    for &(k, x, v) in &[
        (1.0, 0.1, 2.48170365954150762e-01),
        (1.0, 5.0, 9.74652681322531689e-01),
        (2.0, 1.0, 3.93469340287366520e-01),
        (3.0, 2.5, 5.24708916656979496e-01),
        (50.0, 60.0, 8.42757972761608465e-01),
    ] {
        chk!(ok, close(chi2_cdf(k, x), v, tol));
    }
    // chi2(1): F(x) = 2Φ(√x) − 1; gamma(1, rate): exponential; beta(1,1): uniform
    for &x in &[0.01, 0.7, 3.0, 11.0] {
        chk!(ok, close(chi2_cdf(1.0, x), 2.0 * norm_cdf(f64::sqrt(x)) - 1.0, 1e-12));
        chk!(ok, close(gamma_cdf(1.0, 2.5, x), exp_cdf(2.5, x), 1e-12));
    }
    chk!(ok, close(beta_cdf(1.0, 1.0, 0.37), 0.37, 1e-13));
    // closed forms (scipy: gumbel_r, pareto, expon)
    chk!(ok, close(gumbel_cdf(0.5, 2.0, 1.3), 0.5115448336890416, 1e-14));
    chk!(ok, close(pareto_cdf(2.5, 1.5, 3.0), 0.8232233047033631, 1e-14));
    chk!(ok, close(exp_cdf(3.0, 0.7), 0.8775435717470181, 1e-14));
    chk!(ok, uniform_cdf(-1.0, 3.0, 0.0) == 0.25 && uniform_cdf(2.0, 2.0, 2.0) == 1.0 && uniform_cdf(2.0, 2.0, 1.999) == 0.0);
    chk!(ok, duniform_cdf(-2.0, 2.0, 0.0) == 0.6 && duniform_cdf(3.0, 3.0, 3.0) == 1.0 && duniform_cdf(3.0, 3.0, 2.0) == 0.0);
    chk!(ok, bernoulli_cdf(0.3, 0.0) == 0.7 && bernoulli_cdf(0.3, -1.0) == 0.0 && bernoulli_cdf(0.3, 1.0) == 1.0);
    chk!(ok, normal_cdf(1.0, 0.0, 1.0) == 1.0 && normal_cdf(1.0, 0.0, 0.999) == 0.0 && close(normal_cdf(1.0, 2.0, 3.5), norm_cdf(1.25), 1e-15));
    ok
}
