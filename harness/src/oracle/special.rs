//! Reference special functions for C09 / C17: glibc tgamma / erf / expm1 through `extern "C"`,
//! the harness's own digamma (recurrence to x >= 40 + 8-term asymptotic series, double-double),
//! harmonic numbers, factorials in double-double and exact binomial coefficients in u128.

use super::dd::DD;

extern "C" {
    fn tgamma(x: f64) -> f64;
    fn erf(x: f64) -> f64;
    fn expm1(x: f64) -> f64;
}

/// glibc Γ(x) (documented error: a few ulp).
#[inline]
pub fn tgamma_ref(x: f64) -> f64 {
    unsafe { tgamma(x) }
}

/// glibc erf(x) (< 1 ulp).
#[inline]
pub fn erf_ref(x: f64) -> f64 {
    unsafe { erf(x) }
}

#[inline]
pub fn expm1_ref(x: f64) -> f64 {
    unsafe { expm1(x) }
}

/// Euler–Mascheroni constant (f64 nearest; the error 1e-17 is negligible next to 1e-10).
pub const EULER_GAMMA: f64 = 0.577_215_664_901_532_9;

/// B_{2k} / (2k) for k = 1..=8: ψ(x) ~ ln x − 1/(2x) − Σ_k c_k / x^{2k}.
const PSI_C: [(f64, f64); 8] = [
    (1.0, 12.0),
    (-1.0, 120.0),
    (1.0, 252.0),
    (-1.0, 240.0),
    (1.0, 132.0),
    (-691.0, 32760.0),
    (1.0, 12.0),
    (-3617.0, 8160.0),
];

/// ψ(x) for x > 0 in double-double: upward recurrence ψ(x) = ψ(x+1) − 1/x until x >= 40, then the
/// asymptotic series with 8 Bernoulli terms (first omitted term B18/(18·40^18) < 5e-29).
pub fn digamma_ref(x: f64) -> DD {
    let mut acc = DD::ZERO;
    let mut y = DD::new(x);
    while y.hi < 40.0 {
        acc = acc + DD::ONE / y;
        y = y + 1.0;
    }
    let inv = DD::ONE / y;
    let inv2 = inv * inv;
    let mut s = y.ln() - inv * 0.5;
    let mut p = inv2;
    for (num, den) in PSI_C.iter() {
        s = s - p * (DD::new(*num) / DD::new(*den));
        p = p * inv2;
    }
    s - acc
}

/// ψ(x) for x > 0 in plain f64 (≈ 1e-15 relative to max(1,|ψ|)); used only for first-order
/// corrections of an oracle argument.
pub fn digamma_f64(x: f64) -> f64 {
    let mut acc = 0.0;
    let mut y = x;
    while y < 20.0 {
        acc += 1.0 / y;
        y += 1.0;
    }
    let inv2 = 1.0 / (y * y);
    let mut s = y.ln() - 0.5 / y;
    let mut p = inv2;
    for (num, den) in PSI_C.iter() {
        s -= p * (num / den);
        p *= inv2;
    }
    s - acc
}

/// n! in double-double (each step multiplies by an exactly representable integer; relative error
/// of the result < 1e-29 for n <= 170).
pub fn factorial_dd(n: u32) -> DD {
    let mut f = DD::ONE;
    for k in 2..=n {
        f = f * (k as f64);
    }
    f
}

/// Exact C(n,k) if it is < 2^64, otherwise None. Multiplicative formula over min(k, n−k) in u128;
/// the partial results C(n−m+i, i)… are the increasing sequence C(n,i), so the first partial result
/// >= 2^64 proves that the final value does not fit.
pub fn binom_exact(n: u64, k: u64) -> Option<u64> {
    if k > n {
        return Some(0);
    }
    let m = k.min(n - k);
    let mut c: u128 = 1;
    for i in 1..=m {
        // c = C(n, i−1) < 2^64, (n − i + 1) < 2^64: the product fits in u128; division is exact.
        c = c * ((n - i + 1) as u128) / (i as u128);
        if c > u64::MAX as u128 {
            return None;
        }
    }
    Some(c as u64)
}

/// Exact C(n,k) in u128 by Pascal's triangle, n <= 120 (independent of `binom_exact`).
pub fn pascal_row(n: usize) -> Vec<u128> {
    let mut row = vec![1u128];
    for _ in 0..n {
        let mut next = vec![1u128; row.len() + 1];
        for j in 1..row.len() {
            next[j] = row[j - 1] + row[j];
        }
        row = next;
    }
    row
}

pub fn self_test() -> bool {
    // ψ(1) = −γ, ψ(1/2) = −γ − 2 ln 2, ψ(60) against the f64 version
    if (digamma_ref(1.0).f() + EULER_GAMMA).abs() > 1e-15 {
        return false;
    }
    if (digamma_ref(0.5).f() + EULER_GAMMA + 2.0 * std::f64::consts::LN_2).abs() > 2e-15 {
        return false;
    }
    for &x in &[1e-3, 0.3, 1.0, 7.25, 60.0, 1e5] {
        let a = digamma_ref(x).f();
        let b = digamma_f64(x);
        if (a - b).abs() > 1e-13 * a.abs().max(1.0) {
            return false;
        }
    }
    // Γ(5) = 24, Γ(1/2)^2 = π, erf(1)
    if tgamma_ref(5.0) != 24.0 || (tgamma_ref(0.5).powi(2) - std::f64::consts::PI).abs() > 1e-14 {
        return false;
    }
    if (erf_ref(1.0) - 0.842_700_792_949_714_9).abs() > 1e-15 {
        return false;
    }
    if (expm1_ref(1e-10) - 1.00000000005e-10).abs() > 1e-25 {
        return false;
    }
    // factorial and binomial oracles against each other
    if factorial_dd(20).f() != 2432902008176640000.0 {
        return false;
    }
    for n in [0usize, 1, 2, 10, 34, 67, 68, 90] {
        let row = pascal_row(n);
        for (k, v) in row.iter().enumerate() {
            let want = if *v <= u64::MAX as u128 { Some(*v as u64) } else { None };
            if binom_exact(n as u64, k as u64) != want {
                return false;
            }
        }
    }
    binom_exact(u64::MAX, 1) == Some(u64::MAX) && binom_exact(1 << 32, 2).is_some() && binom_exact(1 << 33, 2).is_none()
}
