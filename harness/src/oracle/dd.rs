//! Double-double arithmetic (≈ 106 bits) built on error-free transformations.
//! Used so that an oracle's own rounding is negligible next to the f64 bounds it checks.

use std::ops::{Add, Div, Mul, Neg, Sub};

#[derive(Clone, Copy, Debug, PartialEq)]
pub struct DD {
    pub hi: f64,
    pub lo: f64,
}

#[inline]
fn two_sum(a: f64, b: f64) -> (f64, f64) {
    let s = a + b;
    let bb = s - a;
    let e = (a - (s - bb)) + (b - bb);
    (s, e)
}

#[inline]
fn quick_two_sum(a: f64, b: f64) -> (f64, f64) {
    let s = a + b;
    let e = b - (s - a);
    (s, e)
}

#[inline]
fn two_prod(a: f64, b: f64) -> (f64, f64) {
    let p = a * b;
    let e = a.mul_add(b, -p);
    (p, e)
}

impl DD {
    pub const ZERO: DD = DD { hi: 0.0, lo: 0.0 };
    pub const ONE: DD = DD { hi: 1.0, lo: 0.0 };
    pub const LN2: DD = DD { hi: 0.6931471805599453, lo: 2.3190468138462996e-17 };
    pub const PI: DD = DD { hi: 3.141592653589793, lo: 1.2246467991473532e-16 };

    #[inline]
    pub fn new(x: f64) -> DD {
        DD { hi: x, lo: 0.0 }
    }
    #[inline]
    pub fn from_sum(a: f64, b: f64) -> DD {
        let (s, e) = two_sum(a, b);
        DD { hi: s, lo: e }
    }
    #[inline]
    pub fn from_prod(a: f64, b: f64) -> DD {
        let (p, e) = two_prod(a, b);
        DD { hi: p, lo: e }
    }
    #[inline]
    pub fn f(self) -> f64 {
        self.hi + self.lo
    }
    pub fn abs(self) -> DD {
        if self.hi < 0.0 || (self.hi == 0.0 && self.lo < 0.0) {
            -self
        } else {
            self
        }
    }
    pub fn is_finite(self) -> bool {
        self.hi.is_finite() && self.lo.is_finite()
    }
    pub fn sqr(self) -> DD {
        self * self
    }
    pub fn sqrt(self) -> DD {
        if self.hi <= 0.0 {
            return DD::new(if self.hi == 0.0 { 0.0 } else { f64::NAN });
        }
        let x = self.hi.sqrt();
        // one Newton step in dd
        let xx = DD::from_prod(x, x);
        let d = (self - xx).hi / (2.0 * x);
        DD::from_sum(x, d)
    }
    pub fn powi(self, n: i32) -> DD {
        let mut e = n.unsigned_abs();
        let mut b = self;
        let mut r = DD::ONE;
        while e > 0 {
            if e & 1 == 1 {
                r = r * b;
            }
            b = b * b;
            e >>= 1;
        }
        if n < 0 {
            DD::ONE / r
        } else {
            r
        }
    }
    /// exp in double-double (argument reduction by ln 2 and 2^-9, Taylor series).
    pub fn exp(self) -> DD {
        if self.hi > 709.79 {
            return DD::new(f64::INFINITY);
        }
        if self.hi < -745.2 {
            return DD::ZERO;
        }
        let k = (self.hi / DD::LN2.hi).round();
        let r = self - DD::LN2 * DD::new(k);
        let r = r * DD::new(1.0 / 512.0);
        // Taylor
        let mut term = r;
        let mut sum = DD::ONE + r;
        for i in 2..=18 {
            term = term * r / DD::new(i as f64);
            sum = sum + term;
            if term.hi.abs() < 1e-36 {
                break;
            }
        }
        // square 9 times
        let mut s = sum;
        for _ in 0..9 {
            s = s * s;
        }
        // scale by 2^k (split to avoid premature overflow/underflow)
        let k = k as i32;
        let k1 = k / 2;
        let k2 = k - k1;
        let s = DD { hi: s.hi * 2f64.powi(k1), lo: s.lo * 2f64.powi(k1) };
        DD { hi: s.hi * 2f64.powi(k2), lo: s.lo * 2f64.powi(k2) }
    }
    /// natural log in double-double (Newton on exp).
    pub fn ln(self) -> DD {
        if self.hi <= 0.0 {
            return DD::new(if self.hi == 0.0 { f64::NEG_INFINITY } else { f64::NAN });
        }
        let mut x = DD::new(self.hi.ln());
        for _ in 0..2 {
            let e = x.exp();
            // x <- x + (a - e)/e
            x = x + (self - e) / e;
        }
        x
    }
    pub fn lt(self, o: DD) -> bool {
        self.hi < o.hi || (self.hi == o.hi && self.lo < o.lo)
    }
}

impl Neg for DD {
    type Output = DD;
    #[inline]
    fn neg(self) -> DD {
        DD { hi: -self.hi, lo: -self.lo }
    }
}

impl Add for DD {
    type Output = DD;
    #[inline]
    fn add(self, o: DD) -> DD {
        let (s1, s2) = two_sum(self.hi, o.hi);
        if !s1.is_finite() {
            return DD { hi: s1, lo: 0.0 };
        }
        let (t1, t2) = two_sum(self.lo, o.lo);
        let s2 = s2 + t1;
        let (s1, s2) = quick_two_sum(s1, s2);
        let s2 = s2 + t2;
        let (hi, lo) = quick_two_sum(s1, s2);
        DD { hi, lo }
    }
}

impl Sub for DD {
    type Output = DD;
    #[inline]
    fn sub(self, o: DD) -> DD {
        self + (-o)
    }
}

impl Mul for DD {
    type Output = DD;
    #[inline]
    fn mul(self, o: DD) -> DD {
        let (p1, p2) = two_prod(self.hi, o.hi);
        if !p1.is_finite() {
            return DD { hi: p1, lo: 0.0 };
        }
        let p2 = p2 + (self.hi * o.lo + self.lo * o.hi);
        let (hi, lo) = quick_two_sum(p1, p2);
        DD { hi, lo }
    }
}

impl Div for DD {
    type Output = DD;
    fn div(self, o: DD) -> DD {
        let q1 = self.hi / o.hi;
        if !q1.is_finite() {
            return DD { hi: q1, lo: 0.0 };
        }
        let r = self - o * DD::new(q1);
        let q2 = r.hi / o.hi;
        let r = r - o * DD::new(q2);
        let q3 = r.hi / o.hi;
        let (a, b) = quick_two_sum(q1, q2);
        DD { hi: a, lo: b } + DD::new(q3)
    }
}

impl Add<f64> for DD {
    type Output = DD;
    #[inline]
    fn add(self, o: f64) -> DD {
        self + DD::new(o)
    }
}
impl Sub<f64> for DD {
    type Output = DD;
    #[inline]
    fn sub(self, o: f64) -> DD {
        self + DD::new(-o)
    }
}
impl Mul<f64> for DD {
    type Output = DD;
    #[inline]
    fn mul(self, o: f64) -> DD {
        self * DD::new(o)
    }
}
impl Div<f64> for DD {
    type Output = DD;
    #[inline]
    fn div(self, o: f64) -> DD {
        self / DD::new(o)
    }
}

pub fn dd_sum(x: &[f64]) -> DD {
    let mut s = DD::ZERO;
    for &v in x {
        s = s + DD::new(v);
    }
    s
}

pub fn dd_dot(x: &[f64], y: &[f64]) -> DD {
    let mut s = DD::ZERO;
    for (a, b) in x.iter().zip(y) {
        s = s + DD::from_prod(*a, *b);
    }
    s
}

pub fn dd_mean(x: &[f64]) -> DD {
    dd_sum(x) / DD::new(x.len() as f64)
}

/// Σ|x_i|
pub fn abs_sum(x: &[f64]) -> f64 {
    x.iter().map(|v| v.abs()).sum()
}

pub fn self_test() -> bool {
    // (1 + 2^-60) - 1 == 2^-60 exactly in dd
    let a = DD::new(1.0) + DD::new(2f64.powi(-60));
    let d = a - DD::ONE;
    if d.f() != 2f64.powi(-60) {
        return false;
    }
    // 1/3 * 3 == 1 to 1e-31
    let t = DD::ONE / DD::new(3.0) * DD::new(3.0) - DD::ONE;
    if t.f().abs() > 1e-31 {
        return false;
    }
    // exp(ln(x)) == x
    for &x in &[0.3, 1.0, 7.5, 1e10, 1e-10, 123.456] {
        let r = DD::new(x).ln().exp() - DD::new(x);
        if (r.f() / x).abs() > 1e-27 {
            return false;
        }
    }
    // exp(1) vs known digits
    let e = DD::ONE.exp();
    let e_ref = DD { hi: 2.718281828459045, lo: 1.4456468917292502e-16 };
    if ((e - e_ref).f()).abs() > 1e-27 {
        return false;
    }
    // sqrt(2)^2 == 2
    let s = DD::new(2.0).sqrt();
    if ((s * s - DD::new(2.0)).f()).abs() > 1e-30 {
        return false;
    }
    true
}

