//! Independent reference implementations used as oracles.
pub mod dd;
pub mod linalg;
pub mod quad;
