//! Independent reference implementations used as oracles.
pub mod cdf;
pub mod dd;
pub mod dual;
pub mod glm_ref;
pub mod linalg;
pub mod quad;
pub mod special;
