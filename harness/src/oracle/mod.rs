//! Independent reference implementations used as oracles.
pub mod dd;
