//! Quadrature oracles: tanh-sinh (double-exponential) rule on finite and semi-infinite intervals,
//! robust to integrable end-point singularities, and Gauss–Legendre nodes for product rules.
//!
//! The tanh-sinh rule on the unit interval [0,1] uses the nodes u_k = δ(t_k) (and 1 − δ(t_k)) with
//!   s = (π/2)·sinh t,   δ(t) = 1 / (1 + e^{2s}),   weight  ω(t) = π·cosh t · δ·(1 − δ)      (t = k·h)
//! and ∫_0^1 f ≈ h·Σ_k ω(t_k)·f(u_k). Nodes are addressed by their *distance* δ from the nearer end, so
//! an integrand with a singularity at an end point can be evaluated without cancellation down to
//! δ ≈ 1e-300 as long as the end point is 0 in the caller's variable (or the caller uses `da`/`db`).

use std::sync::OnceLock;

/// finest level: h = 2^-MAXL
pub const MAXL: usize = 8;
const TMAX: f64 = 6.12; // δ(6.12) ≈ 1e-306

struct Table {
    /// entry k ↔ t = k·2^-MAXL: (δ, ω)
    nodes: Vec<(f64, f64)>,
}

fn table() -> &'static Table {
    static T: OnceLock<Table> = OnceLock::new();
    T.get_or_init(|| {
        let h = 0.5f64.powi(MAXL as i32);
        let n = (TMAX / h).floor() as usize;
        let mut nodes = Vec::with_capacity(n + 1);
        for k in 0..=n {
            let t = k as f64 * h;
            let s = std::f64::consts::FRAC_PI_2 * t.sinh();
            let e = (-2.0 * s).exp(); // e^{-2s} ≤ 1
            let delta = e / (1.0 + e);
            let one_minus = 1.0 / (1.0 + e);
            let w = std::f64::consts::PI * t.cosh() * delta * one_minus;
            nodes.push((delta, w));
        }
        Table { nodes }
    })
}

/// A node of the rule mapped to [a,b].
#[derive(Clone, Copy, Debug)]
pub struct Node {
    /// abscissa
    pub x: f64,
    /// x − a and b − x, each computed without cancellation for the nearer end
    pub da: f64,
    pub db: f64,
}

#[derive(Clone, Debug)]
pub struct QuadOut<const M: usize> {
    pub val: [f64; M],
    /// |I_l − I_{l−1}| at the last level evaluated
    pub err: [f64; M],
    pub evals: usize,
    pub levels: usize,
}

/// Core: ∫_0^1 g(u) du where the callback receives (δ, near_zero) — the node is u = δ when
/// `near_zero`, u = 1 − δ otherwise (the centre node δ = ½ is passed once with near_zero = true) —
/// and returns the integrand values *divided by nothing*: plain g(u). The callback may return
/// non-finite components; they are replaced by 0 and counted.
/// Levels are refined until every component changes by less than `rel`·|I| + `abs[i]`, at least
/// `min_level` and at most `max_level` (≤ MAXL) levels.
pub fn unit_tanh_sinh<const M: usize>(
    mut g: impl FnMut(f64, bool) -> [f64; M],
    rel: f64,
    abs: [f64; M],
    min_level: usize,
    max_level: usize,
) -> (QuadOut<M>, usize) {
    let tb = table();
    let max_level = max_level.min(MAXL);
    let mut sum = [0.0f64; M];
    let mut comp = [0.0f64; M]; // Neumaier compensation
    let mut evals = 0usize;
    let mut nonfinite = 0usize;
    let mut prev = [f64::NAN; M];
    let mut out = QuadOut { val: [0.0; M], err: [f64::INFINITY; M], evals: 0, levels: 0 };
    let add = |sum: &mut [f64; M], comp: &mut [f64; M], w: f64, v: [f64; M], nonfinite: &mut usize| {
        for i in 0..M {
            let mut term = w * v[i];
            if !term.is_finite() {
                // value representable but w·v is not, or v itself non-finite
                *nonfinite += 1;
                term = 0.0;
            }
            let t = sum[i] + term;
            if sum[i].abs() >= term.abs() {
                comp[i] += (sum[i] - t) + term;
            } else {
                comp[i] += (term - t) + sum[i];
            }
            sum[i] = t;
        }
    };
    for level in 0..=max_level {
        let stride = 1usize << (MAXL - level);
        let h = 0.5f64.powi(level as i32);
        let mut k = if level == 0 { 0 } else { stride };
        let step = if level == 0 { stride } else { 2 * stride };
        while k < tb.nodes.len() {
            let (delta, w) = tb.nodes[k];
            if delta <= 0.0 || w <= 0.0 {
                break;
            }
            if k == 0 {
                let v = g(delta, true);
                evals += 1;
                add(&mut sum, &mut comp, w, v, &mut nonfinite);
            } else {
                let v = g(delta, true);
                add(&mut sum, &mut comp, w, v, &mut nonfinite);
                let v = g(delta, false);
                add(&mut sum, &mut comp, w, v, &mut nonfinite);
                evals += 2;
            }
            k += step;
        }
        let mut cur = [0.0f64; M];
        for i in 0..M {
            cur[i] = h * (sum[i] + comp[i]);
        }
        let mut done = level >= min_level && level >= 2;
        for i in 0..M {
            let e = (cur[i] - prev[i]).abs();
            out.err[i] = if prev[i].is_nan() { f64::INFINITY } else { e };
            if !(e <= rel * cur[i].abs() + abs[i]) {
                done = false;
            }
        }
        out.val = cur;
        out.levels = level;
        prev = cur;
        if done {
            break;
        }
    }
    out.evals = evals;
    (out, nonfinite)
}

/// ∫_a^b f(x) dx, a < b finite. Close to an end point `x` rounds onto it while `da`/`db` stay exact:
/// an integrand that is singular at an end must either use `da`/`db` or have that end at 0.
pub fn finite<const M: usize>(
    a: f64,
    b: f64,
    mut f: impl FnMut(&Node) -> [f64; M],
    rel: f64,
    abs: [f64; M],
    min_level: usize,
    max_level: usize,
) -> (QuadOut<M>, usize) {
    let len = b - a;
    let mut abs_u = abs;
    for v in abs_u.iter_mut() {
        *v /= len;
    }
    let (mut o, nf) = unit_tanh_sinh(
        |delta, near_a| {
            let d = len * delta;
            let node = if near_a {
                let x = a + d;
                Node { x, da: d, db: b - x }
            } else {
                let x = b - d;
                Node { x, da: x - a, db: d }
            };
            f(&node)
        },
        rel,
        abs_u,
        min_level,
        max_level,
    );
    for i in 0..M {
        o.val[i] *= len;
        o.err[i] *= len;
    }
    (o, nf)
}

/// ∫ over the half line starting at `a` in direction `dir` (+1: [a, ∞), −1: (−∞, a]) with the
/// algebraic map x = a + dir·s·(1 − d)/d, d ∈ (0, 1]. The callback gets (x, |x − a|) and returns f(x);
/// the Jacobian s/d² is applied here in an order that cannot overflow while the product is finite.
/// Works for exponentially and for algebraically decaying tails (the latter become an integrable
/// end-point singularity d^{p−2} of the transformed integrand for f ~ x^{−p}, p > 1).
pub fn half_line<const M: usize>(
    a: f64,
    s: f64,
    dir: f64,
    mut f: impl FnMut(f64, f64) -> [f64; M],
    rel: f64,
    abs: [f64; M],
    min_level: usize,
    max_level: usize,
) -> (QuadOut<M>, usize) {
    unit_tanh_sinh(
        |delta, near_zero| {
            // d = distance variable: d → 0 is x → ∞
            let (d, omd) = if near_zero { (delta, 1.0 - delta) } else { (1.0 - delta, delta) };
            let off = s * (omd / d);
            let x = a + dir * off;
            if !x.is_finite() || !off.is_finite() || x == a {
                return [0.0; M];
            }
            let v = f(x, off);
            let mut o = [0.0; M];
            for i in 0..M {
                if v[i] == 0.0 {
                    continue;
                }
                // (v·s/d)/d — v is small where 1/d is large
                o[i] = (v[i] * s / d) / d;
            }
            o
        },
        rel,
        abs,
        min_level,
        max_level,
    )
}

/// Gauss–Legendre nodes and weights on [−1, 1] (Newton iteration on P_n).
pub fn gauss_legendre(n: usize) -> Vec<(f64, f64)> {
    let mut out = vec![(0.0, 0.0); n];
    let nf = n as f64;
    for i in 0..(n + 1) / 2 {
        let mut x = (std::f64::consts::PI * (i as f64 + 0.75) / (nf + 0.5)).cos();
        let mut dp = 0.0;
        for _ in 0..100 {
            let (mut p0, mut p1) = (1.0f64, x);
            for k in 2..=n {
                let kf = k as f64;
                let p2 = ((2.0 * kf - 1.0) * x * p1 - (kf - 1.0) * p0) / kf;
                p0 = p1;
                p1 = p2;
            }
            let pn = if n == 0 { 1.0 } else { p1 };
            dp = nf * (x * pn - p0) / (x * x - 1.0);
            let dx = pn / dp;
            x -= dx;
            if dx.abs() < 1e-16 {
                break;
            }
        }
        // recompute derivative at the converged node
        let (mut p0, mut p1) = (1.0f64, x);
        for k in 2..=n {
            let kf = k as f64;
            let p2 = ((2.0 * kf - 1.0) * x * p1 - (kf - 1.0) * p0) / kf;
            p0 = p1;
            p1 = p2;
        }
        if n >= 1 {
            dp = nf * (x * p1 - p0) / (x * x - 1.0);
        }
        let w = 2.0 / ((1.0 - x * x) * dp * dp);
        out[i] = (-x, w);
        out[n - 1 - i] = (x, w);
    }
    out
}

/// Composite Gauss–Legendre nodes on [lo, hi] split into `panels` equal panels with `n` nodes each.
pub fn composite_gl(lo: f64, hi: f64, panels: usize, n: usize) -> Vec<(f64, f64)> {
    let gl = gauss_legendre(n);
    let w = (hi - lo) / panels as f64;
    let mut out = Vec::with_capacity(panels * n);
    for p in 0..panels {
        let a = lo + w * p as f64;
        for &(x, wt) in &gl {
            out.push((a + 0.5 * w * (x + 1.0), 0.5 * w * wt));
        }
    }
    out
}

pub fn self_test() -> bool {
    // ∫_0^1 x^-0.8 dx = 5, ∫_0^1 x^-0.95 dx = 20 (strong end-point singularities)
    for &(p, want) in &[(-0.8f64, 5.0f64), (-0.95, 20.0), (0.5, 1.0 / 1.5), (7.0, 0.125)] {
        let (o, _) = finite(0.0, 1.0, |n| [n.x.powf(p)], 1e-13, [0.0], 3, MAXL);
        if !((o.val[0] - want).abs() <= 1e-11 * want) {
            eprintln!("quad self-test step 1 failed");
        return false;
        }
    }
    // singularity at the right end, addressed through db
    let (o, _) = finite(2.0, 3.0, |n| [n.db.powf(-0.5)], 1e-13, [0.0], 3, MAXL);
    if !((o.val[0] - 2.0).abs() <= 1e-11) {
        eprintln!("quad self-test step 2 failed");
        return false;
    }
    // Gaussian on a finite panel and on half lines
    let (o, _) = finite(-9.0, 9.0, |n| [(-n.x * n.x).exp()], 1e-13, [0.0], 3, MAXL);
    if !((o.val[0] - std::f64::consts::PI.sqrt()).abs() <= 1e-12) {
        eprintln!("quad self-test step 3 failed");
        return false;
    }
    let (o, _) = half_line(0.0, 1.0, 1.0, |x, _| [(-x * x).exp(), (-x).exp() * x], 1e-13, [0.0, 0.0], 3, MAXL);
    if !((o.val[0] - 0.5 * std::f64::consts::PI.sqrt()).abs() <= 1e-11 && (o.val[1] - 1.0).abs() <= 1e-11) {
        eprintln!("quad self-test step 4 failed");
        return false;
    }
    // algebraic tails: ∫_1^∞ x^-1.2 dx = 5 ; ∫_{-∞}^{-1} |x|^-3 dx = 1/2
    let (o, _) = half_line(1.0, 1.0, 1.0, |x, _| [x.powf(-1.2)], 1e-13, [0.0], 3, MAXL);
    if !((o.val[0] - 5.0).abs() <= 1e-9) {
        eprintln!("quad self-test step 5 failed");
        return false;
    }
    let (o, _) = half_line(-1.0, 2.0, -1.0, |x, _| [x.abs().powi(-3)], 1e-13, [0.0], 3, MAXL);
    if !((o.val[0] - 0.5).abs() <= 1e-11) {
        eprintln!("quad self-test step 6 failed");
        return false;
    }
    // Gauss–Legendre: exact for degree 2n−1, weights sum to 2
    let gl = gauss_legendre(12);
    let s0: f64 = gl.iter().map(|&(_, w)| w).sum();
    let s22: f64 = gl.iter().map(|&(x, w)| w * x.powi(22)).sum();
    if !((s0 - 2.0).abs() < 1e-14 && (s22 - 2.0 / 23.0).abs() < 1e-14) {
        eprintln!("quad self-test step 7 failed");
        return false;
    }
    let c = composite_gl(-9.0, 9.0, 6, 12);
    let g: f64 = c.iter().map(|&(x, w)| w * (-0.5 * x * x).exp()).sum();
    if !((g - (2.0 * std::f64::consts::PI).sqrt()).abs() < 1e-12) {
        eprintln!("quad self-test step 8 failed");
        return false;
    }
    true
}
