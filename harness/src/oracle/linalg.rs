//! Independent dense linear-algebra reference code for the oracles (C01, C11 and whoever else needs it).
//!
//! Conventions
//! * Matrices are plain `&[f64]` slices in **row-major** order with explicit dimensions; nothing here
//!   uses the library under test.
//! * ε = `EPS` = 2^-52; `‖·‖` without index is the ∞-norm (max absolute row sum for matrices, max
//!   absolute entry for vectors).
//! * Everything that serves as a *reference value* (products, residuals) is accumulated in
//!   double-double (`oracle::dd`) and rounded once, so the oracle's own rounding is ≈ 2^-100 relative
//!   and negligible next to the f64 bounds being checked.
//! * Factorisations on the oracle side use algorithm variants different from the library's
//!   (right-looking outer-product LU and Cholesky instead of the library's left-looking column sweep),
//!   so that a shared blunder is implausible.
//!
//! Contents
//! * norms and small helpers: `inf_norm`, `vec_inf_norm`, `max_abs`, `transpose`, `column`, `identity`
//! * dd products and residuals: `matmul_dd`, `residual_cols`, `residual_matrix`
//! * `LuPP` — LU with partial pivoting: `lu_pp`, `solve`, `inverse`, `det`, `abs_lu_norm`; `inverse`,
//!   `cond_inf`
//! * `cholesky` (f64, right-looking), `ldlt` (unpivoted, dd-accumulated pivots → inertia when it exists)
//! * `jacobi_eigenvalues` — cyclic Jacobi for symmetric matrices
//! * `bareiss_det` — exact determinant of an integer matrix in i128 (checked arithmetic)
//! * `perm_sign`, `is_permutation`, `all_permutations`
//! * `Rng` (SplitMix64) and `build::*` — deterministic matrix builders for generators
//! * `self_test`

use super::dd::DD;

pub const EPS: f64 = f64::EPSILON;

// ------------------------------------------------------------------------------------------------
// norms and helpers
// ------------------------------------------------------------------------------------------------

/// ∞-norm of a `rows × cols` matrix: the largest absolute row sum.
pub fn inf_norm(a: &[f64], rows: usize, cols: usize) -> f64 {
    debug_assert_eq!(a.len(), rows * cols);
    let mut m = 0.0f64;
    for i in 0..rows {
        let s: f64 = a[i * cols..(i + 1) * cols].iter().map(|v| v.abs()).sum();
        if s > m || s.is_nan() {
            m = s;
        }
    }
    m
}

/// ∞-norm of a vector (largest absolute entry); NaN if any entry is NaN.
pub fn vec_inf_norm(x: &[f64]) -> f64 {
    let mut m = 0.0f64;
    for v in x {
        let a = v.abs();
        if a > m || a.is_nan() {
            m = a;
        }
    }
    m
}

/// Largest absolute entry (same as `vec_inf_norm`, named for matrices).
pub fn max_abs(a: &[f64]) -> f64 {
    vec_inf_norm(a)
}

/// Transpose of a `rows × cols` row-major matrix (result is `cols × rows`).
pub fn transpose(a: &[f64], rows: usize, cols: usize) -> Vec<f64> {
    let mut t = vec![0.0; a.len()];
    for i in 0..rows {
        for j in 0..cols {
            t[j * rows + i] = a[i * cols + j];
        }
    }
    t
}

/// Column `j` of a `rows × cols` row-major matrix.
pub fn column(a: &[f64], rows: usize, cols: usize, j: usize) -> Vec<f64> {
    (0..rows).map(|i| a[i * cols + j]).collect()
}

/// n × n identity.
pub fn identity(n: usize) -> Vec<f64> {
    let mut m = vec![0.0; n * n];
    for i in 0..n {
        m[i * n + i] = 1.0;
    }
    m
}

/// True when every entry is finite.
pub fn all_finite(a: &[f64]) -> bool {
    a.iter().all(|v| v.is_finite())
}

/// True when `a` (n × n) is exactly symmetric.
pub fn is_exactly_symmetric(a: &[f64], n: usize) -> bool {
    for i in 0..n {
        for j in (i + 1)..n {
            if a[i * n + j] != a[j * n + i] {
                return false;
            }
        }
    }
    true
}

// ------------------------------------------------------------------------------------------------
// dd products and residuals
// ------------------------------------------------------------------------------------------------

/// Naive product of `a` (m × l) and `b` (l × n), each entry accumulated in double-double.
pub fn matmul_dd(a: &[f64], b: &[f64], m: usize, l: usize, n: usize) -> Vec<DD> {
    debug_assert_eq!(a.len(), m * l);
    debug_assert_eq!(b.len(), l * n);
    let mut c = vec![DD::ZERO; m * n];
    for i in 0..m {
        for j in 0..n {
            let mut s = DD::ZERO;
            for k in 0..l {
                s = s + DD::from_prod(a[i * l + k], b[k * n + j]);
            }
            c[i * n + j] = s;
        }
    }
    c
}

/// `A·X − B` for `A` n × n, `X` and `B` n × k (row-major), every entry accumulated in dd and rounded
/// once. Returns the n × k residual matrix.
pub fn residual_matrix(a: &[f64], n: usize, x: &[f64], b: &[f64], k: usize) -> Vec<f64> {
    debug_assert_eq!(a.len(), n * n);
    debug_assert_eq!(x.len(), n * k);
    debug_assert_eq!(b.len(), n * k);
    let mut r = vec![0.0; n * k];
    for i in 0..n {
        for j in 0..k {
            let mut s = DD::new(-b[i * k + j]);
            for l in 0..n {
                s = s + DD::from_prod(a[i * n + l], x[l * k + j]);
            }
            r[i * k + j] = s.f();
        }
    }
    r
}

/// Per-column summary of a solve `A·X ≈ B` (`X`, `B` n × k row-major): for column j the triple
/// (‖A·x_j − b_j‖∞, ‖x_j‖∞, ‖b_j‖∞), the residual evaluated in dd.
pub fn residual_cols(a: &[f64], n: usize, x: &[f64], b: &[f64], k: usize) -> Vec<(f64, f64, f64)> {
    let r = residual_matrix(a, n, x, b, k);
    (0..k)
        .map(|j| {
            let mut rn = 0.0f64;
            let mut xn = 0.0f64;
            let mut bn = 0.0f64;
            for i in 0..n {
                let rv = r[i * k + j].abs();
                if rv > rn || rv.is_nan() {
                    rn = rv;
                }
                xn = xn.max(x[i * k + j].abs());
                bn = bn.max(b[i * k + j].abs());
            }
            (rn, xn, bn)
        })
        .collect()
}

// ------------------------------------------------------------------------------------------------
// LU with partial pivoting (right-looking, outer-product form)
// ------------------------------------------------------------------------------------------------

/// Packed LU factorisation with partial pivoting: `P·A = L·U`, `L` unit lower (strict lower part of
/// `lu`), `U` upper (upper part of `lu`); row `i` of `P·A` is row `perm[i]` of `A`.
#[derive(Clone, Debug)]
pub struct LuPP {
    pub n: usize,
    pub lu: Vec<f64>,
    pub perm: Vec<usize>,
    /// number of row exchanges performed
    pub nswaps: usize,
    /// an exactly zero pivot was met (the matrix is singular to working precision)
    pub singular: bool,
}

/// Factorise the n × n matrix `a`. Ties in the pivot search go to the first candidate.
pub fn lu_pp(a: &[f64], n: usize) -> LuPP {
    assert_eq!(a.len(), n * n);
    let mut lu = a.to_vec();
    let mut perm: Vec<usize> = (0..n).collect();
    let mut nswaps = 0;
    let mut singular = false;
    for k in 0..n {
        let mut p = k;
        for i in (k + 1)..n {
            if lu[i * n + k].abs() > lu[p * n + k].abs() {
                p = i;
            }
        }
        if p != k {
            for j in 0..n {
                lu.swap(p * n + j, k * n + j);
            }
            perm.swap(p, k);
            nswaps += 1;
        }
        let piv = lu[k * n + k];
        if piv == 0.0 || !piv.is_finite() {
            singular = true;
            continue;
        }
        for i in (k + 1)..n {
            let m = lu[i * n + k] / piv;
            lu[i * n + k] = m;
            if m != 0.0 {
                for j in (k + 1)..n {
                    lu[i * n + j] -= m * lu[k * n + j];
                }
            }
        }
    }
    LuPP { n, lu, perm, nswaps, singular }
}

impl LuPP {
    /// Solve `A·x = b` for one right-hand side (f64 arithmetic). Meaningless if `singular`.
    pub fn solve(&self, b: &[f64]) -> Vec<f64> {
        let n = self.n;
        let mut x: Vec<f64> = (0..n).map(|i| b[self.perm[i]]).collect();
        for i in 0..n {
            let mut s = DD::new(x[i]);
            for j in 0..i {
                s = s - DD::from_prod(self.lu[i * n + j], x[j]);
            }
            x[i] = s.f();
        }
        for i in (0..n).rev() {
            let mut s = DD::new(x[i]);
            for j in (i + 1)..n {
                s = s - DD::from_prod(self.lu[i * n + j], x[j]);
            }
            x[i] = s.f() / self.lu[i * n + i];
        }
        x
    }

    /// Inverse (row-major) or `None` when a zero pivot was met.
    pub fn inverse(&self) -> Option<Vec<f64>> {
        if self.singular {
            return None;
        }
        let n = self.n;
        let mut inv = vec![0.0; n * n];
        let mut e = vec![0.0; n];
        for j in 0..n {
            e[j] = 1.0;
            let x = self.solve(&e);
            e[j] = 0.0;
            for i in 0..n {
                inv[i * n + j] = x[i];
            }
        }
        if all_finite(&inv) {
            Some(inv)
        } else {
            None
        }
    }

    /// Determinant = sign(perm) · Π u_ii, the product taken in dd.
    pub fn det(&self) -> f64 {
        let mut p = DD::ONE;
        for i in 0..self.n {
            p = p * DD::new(self.lu[i * self.n + i]);
        }
        p.f() * perm_sign(&self.perm) as f64
    }

    /// ‖ |L|·|U| ‖∞ — the quantity that governs the a-priori backward-error bound of Gaussian
    /// elimination: (A+ΔA)x̂ = b with |ΔA| ≤ γ_3n·|L̂||Û| (Higham, ASNA 2nd ed., Thm 9.4).
    pub fn abs_lu_norm(&self) -> f64 {
        let n = self.n;
        let mut m = 0.0f64;
        for i in 0..n {
            let mut rs = 0.0;
            for j in 0..n {
                // (|L||U|)_ij = Σ_{k ≤ min(i,j)} |l_ik||u_kj|, l_ii = 1
                let mut s = 0.0;
                for k in 0..=i.min(j) {
                    let l = if k == i { 1.0 } else { self.lu[i * n + k].abs() };
                    s += l * self.lu[k * n + j].abs();
                }
                rs += s;
            }
            m = m.max(rs);
        }
        m
    }

    /// Element growth max|u_ij| / max|a_ij| (needs the original matrix' largest entry).
    pub fn growth(&self, a_max: f64) -> f64 {
        let n = self.n;
        let mut u = 0.0f64;
        for i in 0..n {
            for j in i..n {
                u = u.max(self.lu[i * n + j].abs());
            }
        }
        if a_max > 0.0 {
            u / a_max
        } else {
            1.0
        }
    }
}

/// Inverse of the n × n matrix `a` by the oracle's own LU, `None` if singular to working precision.
pub fn inverse(a: &[f64], n: usize) -> Option<Vec<f64>> {
    lu_pp(a, n).inverse()
}

/// κ̂∞(A) = ‖A‖∞·‖A⁻¹‖∞ with the oracle's own inverse (`f64::INFINITY` when singular). Accurate to a
/// relative error of about κ·ε, i.e. good to several digits up to κ ≈ 1e12.
pub fn cond_inf(a: &[f64], n: usize) -> f64 {
    match inverse(a, n) {
        Some(inv) => inf_norm(a, n, n) * inf_norm(&inv, n, n),
        None => f64::INFINITY,
    }
}

// ------------------------------------------------------------------------------------------------
// Cholesky and LDLᵀ
// ------------------------------------------------------------------------------------------------

/// Cholesky factor `L` (lower, row-major, `A = L·Lᵀ`) by the right-looking outer-product algorithm in
/// f64; `None` as soon as a pivot is not strictly positive. Reads the lower triangle of `a`.
pub fn cholesky(a: &[f64], n: usize) -> Option<Vec<f64>> {
    assert_eq!(a.len(), n * n);
    let mut w = a.to_vec();
    let mut l = vec![0.0; n * n];
    for k in 0..n {
        let d = w[k * n + k];
        if !(d > 0.0) || !d.is_finite() {
            return None;
        }
        let r = d.sqrt();
        l[k * n + k] = r;
        for i in (k + 1)..n {
            l[i * n + k] = w[i * n + k] / r;
        }
        for i in (k + 1)..n {
            for j in (k + 1)..=i {
                w[i * n + j] -= l[i * n + k] * l[j * n + k];
            }
        }
    }
    Some(l)
}

/// Unpivoted LDLᵀ of a symmetric matrix (lower triangle read), inner products accumulated in dd.
/// Returns the pivots d_0..d_{n-1}, or `None` when a pivot is zero/non-finite (the factorisation
/// does not exist without pivoting). By Sylvester's law the signs of the pivots are the inertia.
pub fn ldlt(a: &[f64], n: usize) -> Option<Vec<f64>> {
    assert_eq!(a.len(), n * n);
    let mut l = vec![0.0; n * n];
    let mut d = vec![0.0; n];
    for j in 0..n {
        let mut s = DD::new(a[j * n + j]);
        for k in 0..j {
            s = s - DD::from_prod(l[j * n + k], l[j * n + k]) * DD::new(d[k]);
        }
        d[j] = s.f();
        if d[j] == 0.0 || !d[j].is_finite() {
            return None;
        }
        l[j * n + j] = 1.0;
        for i in (j + 1)..n {
            let mut s = DD::new(a[i * n + j]);
            for k in 0..j {
                s = s - DD::from_prod(l[i * n + k], l[j * n + k]) * DD::new(d[k]);
            }
            l[i * n + j] = s.f() / d[j];
        }
    }
    Some(d)
}

// ------------------------------------------------------------------------------------------------
// symmetric eigenvalues
// ------------------------------------------------------------------------------------------------

/// Eigenvalues of a symmetric n × n matrix by the cyclic Jacobi method (upper triangle read; the
/// matrix is symmetrised from it), sorted ascending. Absolute accuracy ≈ n·ε·‖A‖₂.
pub fn jacobi_eigenvalues(a: &[f64], n: usize) -> Vec<f64> {
    assert_eq!(a.len(), n * n);
    let mut m = a.to_vec();
    for i in 0..n {
        for j in 0..i {
            m[i * n + j] = m[j * n + i];
        }
    }
    for _sweep in 0..60 {
        let mut off = 0.0f64;
        let mut diag = 0.0f64;
        for i in 0..n {
            diag += m[i * n + i] * m[i * n + i];
            for j in (i + 1)..n {
                off += m[i * n + j] * m[i * n + j];
            }
        }
        if off == 0.0 || off <= 1e-36 * (diag + off) {
            break;
        }
        for p in 0..n {
            for q in (p + 1)..n {
                let apq = m[p * n + q];
                if apq == 0.0 {
                    continue;
                }
                let app = m[p * n + p];
                let aqq = m[q * n + q];
                let theta = (aqq - app) / (2.0 * apq);
                let t = if theta.is_finite() {
                    theta.signum() / (theta.abs() + (theta * theta + 1.0).sqrt())
                } else {
                    0.0
                };
                let t = if theta == 0.0 { 1.0 } else { t };
                let c = 1.0 / (t * t + 1.0).sqrt();
                let s = t * c;
                // rotate rows/columns p and q
                for k in 0..n {
                    let akp = m[k * n + p];
                    let akq = m[k * n + q];
                    m[k * n + p] = c * akp - s * akq;
                    m[k * n + q] = s * akp + c * akq;
                }
                for k in 0..n {
                    let apk = m[p * n + k];
                    let aqk = m[q * n + k];
                    m[p * n + k] = c * apk - s * aqk;
                    m[q * n + k] = s * apk + c * aqk;
                }
                m[p * n + q] = 0.0;
                m[q * n + p] = 0.0;
            }
        }
    }
    let mut ev: Vec<f64> = (0..n).map(|i| m[i * n + i]).collect();
    ev.sort_by(|x, y| x.partial_cmp(y).unwrap_or(std::cmp::Ordering::Equal));
    ev
}

/// Spectral summary of a symmetric matrix: (λ_min, λ_max, min|λ|, max|λ|).
pub fn sym_spectrum(a: &[f64], n: usize) -> (f64, f64, f64, f64) {
    let ev = jacobi_eigenvalues(a, n);
    let lmin = ev[0];
    let lmax = ev[n - 1];
    let amin = ev.iter().fold(f64::INFINITY, |m, v| m.min(v.abs()));
    let amax = ev.iter().fold(0.0f64, |m, v| m.max(v.abs()));
    (lmin, lmax, amin, amax)
}

// ------------------------------------------------------------------------------------------------
// exact determinant, permutations
// ------------------------------------------------------------------------------------------------

/// Exact determinant of an n × n integer matrix by Bareiss' fraction-free elimination with row
/// exchanges, in checked i128 arithmetic; `None` on overflow. Every intermediate entry is a minor of
/// the input, so for |entries| ≤ 9 and n ≤ 12 nothing overflows (Hadamard: |minor| ≤ (9·√12)^12 ≈ 1.2e18).
pub fn bareiss_det(a: &[i64], n: usize) -> Option<i128> {
    assert_eq!(a.len(), n * n);
    if n == 0 {
        return Some(1);
    }
    let mut m: Vec<i128> = a.iter().map(|&v| v as i128).collect();
    let mut sign: i128 = 1;
    let mut prev: i128 = 1;
    for k in 0..n - 1 {
        if m[k * n + k] == 0 {
            let mut p = None;
            for i in (k + 1)..n {
                if m[i * n + k] != 0 {
                    p = Some(i);
                    break;
                }
            }
            match p {
                None => return Some(0),
                Some(p) => {
                    for j in 0..n {
                        m.swap(p * n + j, k * n + j);
                    }
                    sign = -sign;
                }
            }
        }
        let pivot = m[k * n + k];
        for i in (k + 1)..n {
            for j in (k + 1)..n {
                let t1 = m[i * n + j].checked_mul(pivot)?;
                let t2 = m[i * n + k].checked_mul(m[k * n + j])?;
                let num = t1.checked_sub(t2)?;
                debug_assert_eq!(num % prev, 0);
                m[i * n + j] = num / prev;
            }
            m[i * n + k] = 0;
        }
        prev = pivot;
    }
    m[n * n - 1].checked_mul(sign)
}

/// If every entry of `a` is an integer of magnitude < 2^31 return them as i64.
pub fn as_integers(a: &[f64]) -> Option<Vec<i64>> {
    let mut out = Vec::with_capacity(a.len());
    for &v in a {
        if !(v.is_finite() && v == v.trunc() && v.abs() < 2147483648.0) {
            return None;
        }
        out.push(v as i64);
    }
    Some(out)
}

/// True when `p` is a permutation of 0..n.
pub fn is_permutation(p: &[i64], n: usize) -> bool {
    if p.len() != n {
        return false;
    }
    let mut seen = vec![false; n];
    for &v in p {
        if v < 0 || v as usize >= n || seen[v as usize] {
            return false;
        }
        seen[v as usize] = true;
    }
    true
}

/// Sign (+1 / −1) of the permutation i ↦ p[i], by counting inversions (O(n²), no cycle chasing, so
/// it shares nothing with a swap-counting implementation).
pub fn perm_sign(p: &[usize]) -> i32 {
    let mut inv = 0usize;
    for i in 0..p.len() {
        for j in (i + 1)..p.len() {
            if p[i] > p[j] {
                inv += 1;
            }
        }
    }
    if inv % 2 == 0 {
        1
    } else {
        -1
    }
}

/// Length of the longest cycle of the permutation.
pub fn longest_cycle(p: &[usize]) -> usize {
    let n = p.len();
    let mut seen = vec![false; n];
    let mut best = 0;
    for s in 0..n {
        if seen[s] {
            continue;
        }
        let mut len = 0;
        let mut i = s;
        while !seen[i] {
            seen[i] = true;
            i = p[i];
            len += 1;
        }
        best = best.max(len);
    }
    best
}

/// All permutations of 0..n in lexicographic order (n ≤ 8 or so).
pub fn all_permutations(n: usize) -> Vec<Vec<usize>> {
    let mut out = Vec::new();
    let mut p: Vec<usize> = (0..n).collect();
    loop {
        out.push(p.clone());
        // next lexicographic permutation
        let mut i = n;
        loop {
            if i < 2 {
                return out;
            }
            if p[i - 2] < p[i - 1] {
                break;
            }
            i -= 1;
        }
        let i = i - 2;
        let mut j = n - 1;
        while p[j] <= p[i] {
            j -= 1;
        }
        p.swap(i, j);
        p[i + 1..].reverse();
    }
}

/// The permutation matrix with a 1 at (i, p[i]) — its determinant is `perm_sign(p)`.
pub fn perm_matrix(p: &[usize]) -> Vec<f64> {
    let n = p.len();
    let mut m = vec![0.0; n * n];
    for i in 0..n {
        m[i * n + p[i]] = 1.0;
    }
    m
}

// ------------------------------------------------------------------------------------------------
// deterministic generator support
// ------------------------------------------------------------------------------------------------

/// SplitMix64: small, deterministic, seedable from a case salt. Not the harness' source of
/// randomness (that is proptest); it only expands a salt drawn by proptest into matrix entries.
#[derive(Clone, Debug)]
pub struct Rng(pub u64);

impl Rng {
    pub fn new(seed: u64) -> Self {
        Rng(seed ^ 0x9E37_79B9_7F4A_7C15)
    }
    pub fn next_u64(&mut self) -> u64 {
        self.0 = self.0.wrapping_add(0x9E37_79B9_7F4A_7C15);
        let mut z = self.0;
        z = (z ^ (z >> 30)).wrapping_mul(0xBF58_476D_1CE4_E5B9);
        z = (z ^ (z >> 27)).wrapping_mul(0x94D0_49BB_1331_11EB);
        z ^ (z >> 31)
    }
    /// uniform in [0, 1)
    pub fn unif(&mut self) -> f64 {
        (self.next_u64() >> 11) as f64 / (1u64 << 53) as f64
    }
    /// uniform in [lo, hi)
    pub fn unif_in(&mut self, lo: f64, hi: f64) -> f64 {
        lo + (hi - lo) * self.unif()
    }
    /// uniform integer in lo..=hi
    pub fn int(&mut self, lo: i64, hi: i64) -> i64 {
        let span = (hi - lo + 1) as u64;
        lo + (self.next_u64() % span) as i64
    }
    /// index in 0..n
    pub fn below(&mut self, n: usize) -> usize {
        (self.next_u64() % n.max(1) as u64) as usize
    }
    pub fn coin(&mut self) -> bool {
        self.next_u64() & 1 == 1
    }
    /// ±1
    pub fn sign(&mut self) -> f64 {
        if self.coin() {
            1.0
        } else {
            -1.0
        }
    }
    /// standard normal (Box–Muller)
    pub fn gauss(&mut self) -> f64 {
        let u1 = 1.0 - self.unif(); // (0, 1]
        let u2 = self.unif();
        (-2.0 * u1.ln()).sqrt() * (2.0 * std::f64::consts::PI * u2).cos()
    }
    /// random permutation of 0..n (Fisher–Yates)
    pub fn perm(&mut self, n: usize) -> Vec<usize> {
        let mut p: Vec<usize> = (0..n).collect();
        for i in (1..n).rev() {
            let j = self.below(i + 1);
            p.swap(i, j);
        }
        p
    }
    /// a permutation of 0..n consisting of one n-cycle
    pub fn cycle(&mut self, n: usize) -> Vec<usize> {
        let order = self.perm(n);
        let mut p = vec![0; n];
        for i in 0..n {
            p[order[i]] = order[(i + 1) % n];
        }
        p
    }
}

/// Deterministic builders of structured test matrices (row-major `Vec<f64>`).
pub mod build {
    use super::*;

    /// r × c matrix of independent N(0,1) entries.
    pub fn gauss(rng: &mut Rng, r: usize, c: usize) -> Vec<f64> {
        (0..r * c).map(|_| rng.gauss()).collect()
    }

    /// r × c matrix of independent uniform integers in lo..=hi.
    pub fn ints(rng: &mut Rng, r: usize, c: usize, lo: i64, hi: i64) -> Vec<f64> {
        (0..r * c).map(|_| rng.int(lo, hi) as f64).collect()
    }

    /// Symmetric positive definite `GᵀG/n + δ·I` with Gaussian G; exactly symmetric (upper triangle
    /// computed, mirrored). Its 2-norm condition number is modest (≲ (1+4)/δ).
    pub fn spd_gram(rng: &mut Rng, n: usize, delta: f64) -> Vec<f64> {
        let g = gauss(rng, n, n);
        let mut a = vec![0.0; n * n];
        for i in 0..n {
            for j in i..n {
                let mut s = 0.0;
                for k in 0..n {
                    s += g[k * n + i] * g[k * n + j];
                }
                let v = s / n as f64 + if i == j { delta } else { 0.0 };
                a[i * n + j] = v;
                a[j * n + i] = v;
            }
        }
        a
    }

    /// Symmetric two-sided scaling `D·A·D` (d_i·a_ij·d_j), result exactly symmetric.
    pub fn sym_scale(a: &[f64], n: usize, d: &[f64]) -> Vec<f64> {
        let mut out = vec![0.0; n * n];
        for i in 0..n {
            for j in i..n {
                let v = d[i] * a[i * n + j] * d[j];
                out[i * n + j] = v;
                out[j * n + i] = v;
            }
        }
        out
    }

    /// Grading vector d_i = 10^(−t·π(i)/(n−1)) for a random order π, so that `sym_scale` multiplies the
    /// condition number by about 10^(2t) and a row scaling by 10^t.
    pub fn grading(rng: &mut Rng, n: usize, t: f64) -> Vec<f64> {
        let order = rng.perm(n);
        (0..n)
            .map(|i| if n > 1 { 10f64.powf(-t * order[i] as f64 / (n - 1) as f64) } else { 1.0 })
            .collect()
    }

    /// Symmetric permutation `P·A·Pᵀ`: entry (i,j) ← a(p[i], p[j]).
    pub fn sym_permute(a: &[f64], n: usize, p: &[usize]) -> Vec<f64> {
        let mut out = vec![0.0; n * n];
        for i in 0..n {
            for j in 0..n {
                out[i * n + j] = a[p[i] * n + p[j]];
            }
        }
        out
    }

    /// Symmetric **indefinite** matrix with a **strictly positive diagonal**, nonsingular with
    /// min|λ| ≥ 1e-6·max|λ| and λ_min ≤ −1e-3·max|λ| (verified with `jacobi_eigenvalues`); n ≥ 2.
    /// `integer` selects small integer entries (off-diagonal −4..4, diagonal 1..3), otherwise
    /// Gaussian off-diagonals and diagonal |N(0,1)| + 0.1.
    pub fn sym_indef_posdiag(rng: &mut Rng, n: usize, integer: bool) -> Vec<f64> {
        assert!(n >= 2);
        for attempt in 0..8 {
            let boost = (1u64 << attempt) as f64;
            let mut a = vec![0.0; n * n];
            for i in 0..n {
                a[i * n + i] = if integer { rng.int(1, 3) as f64 } else { rng.gauss().abs() + 0.1 };
                for j in (i + 1)..n {
                    let v = if integer { rng.int(-4, 4) as f64 } else { rng.gauss() } * boost;
                    a[i * n + j] = v;
                    a[j * n + i] = v;
                }
            }
            let (lmin, _lmax, amin, amax) = sym_spectrum(&a, n);
            if lmin <= -1e-3 * amax && amin >= 1e-6 * amax {
                return a;
            }
        }
        // guaranteed fallback: [[1,2],[2,1]] ⊕ I has eigenvalues −1, 3, 1, …
        let mut a = identity(n);
        a[1] = 2.0;
        a[n] = 2.0;
        a
    }

    /// Lower- (or upper-) triangular matrix with diagonal entries ±[1, 2) and off-diagonal entries
    /// N(0,1)·`off`; the other triangle is exactly zero.
    /// A = H1 · diag(σ) · H2 with Householder reflections H1, H2 and singular values graded
    /// geometrically from 1 down to 10^-e: ill-conditioned without any row/column scaling structure.
    pub fn svd_graded(rng: &mut Rng, n: usize, e: f64) -> Vec<f64> {
        let mut a = vec![0.0; n * n];
        for i in 0..n {
            let t = if n > 1 { i as f64 / (n - 1) as f64 } else { 0.0 };
            a[i * n + i] = 10f64.powf(-e * t);
        }
        for side in 0..2 {
            let v: Vec<f64> = (0..n).map(|_| rng.gauss()).collect();
            let vv: f64 = v.iter().map(|x| x * x).sum();
            if vv == 0.0 {
                continue;
            }
            if side == 0 {
                // A <- (I - 2 v v^T / v^T v) A
                for j in 0..n {
                    let d: f64 = (0..n).map(|i| v[i] * a[i * n + j]).sum::<f64>() * 2.0 / vv;
                    for i in 0..n {
                        a[i * n + j] -= d * v[i];
                    }
                }
            } else {
                // A <- A (I - 2 v v^T / v^T v)
                for i in 0..n {
                    let d: f64 = (0..n).map(|j| a[i * n + j] * v[j]).sum::<f64>() * 2.0 / vv;
                    for j in 0..n {
                        a[i * n + j] -= d * v[j];
                    }
                }
            }
        }
        a
    }

    pub fn triangular(rng: &mut Rng, n: usize, lower: bool, off: f64) -> Vec<f64> {
        let mut t = vec![0.0; n * n];
        for i in 0..n {
            for j in 0..n {
                let in_tri = if lower { j < i } else { j > i };
                if i == j {
                    t[i * n + j] = rng.sign() * rng.unif_in(1.0, 2.0);
                } else if in_tri {
                    t[i * n + j] = rng.gauss() * off;
                }
            }
        }
        t
    }

    /// Row permutation: row i of the result is row p[i] of `a` (r × c).
    pub fn permute_rows(a: &[f64], r: usize, c: usize, p: &[usize]) -> Vec<f64> {
        let mut out = vec![0.0; r * c];
        for i in 0..r {
            out[i * c..(i + 1) * c].copy_from_slice(&a[p[i] * c..(p[i] + 1) * c]);
        }
        out
    }

    /// Column permutation: column j of the result is column p[j] of `a` (r × c).
    pub fn permute_cols(a: &[f64], r: usize, c: usize, p: &[usize]) -> Vec<f64> {
        let mut out = vec![0.0; r * c];
        for i in 0..r {
            for j in 0..c {
                out[i * c + j] = a[i * c + p[j]];
            }
        }
        out
    }
}

// ------------------------------------------------------------------------------------------------
// self-test
// ------------------------------------------------------------------------------------------------

/// Cheap consistency checks of the reference code on inputs with known answers.
pub fn self_test() -> bool {
    // Bareiss
    if bareiss_det(&[1, 2, 3, 4], 2) != Some(-2) {
        return false;
    }
    // det [[2,0,1],[1,3,2],[1,1,1]] = 2(3·1−2·1) − 0 + 1(1·1−3·1) = 2 − 2 = 0
    if bareiss_det(&[2, 0, 1, 1, 3, 2, 1, 1, 1], 3) != Some(0) {
        return false;
    }
    // det [[0,2,1],[3,0,4],[1,5,0]] = 0 − 2(0−4) + 1(15−0) = 23
    if bareiss_det(&[0, 2, 1, 3, 0, 4, 1, 5, 0], 3) != Some(23) {
        return false;
    }
    // 4-cycle permutation matrix: odd
    let c4 = [1usize, 2, 3, 0];
    if perm_sign(&c4) != -1 || perm_sign(&[0, 1, 2]) != 1 || perm_sign(&[1, 0, 2]) != -1 || perm_sign(&[1, 2, 0]) != 1 {
        return false;
    }
    let pm: Vec<i64> = perm_matrix(&c4).iter().map(|v| *v as i64).collect();
    if bareiss_det(&pm, 4) != Some(-1) {
        return false;
    }
    if longest_cycle(&c4) != 4 || all_permutations(4).len() != 24 || all_permutations(1).len() != 1 {
        return false;
    }
    // every permutation of order ≤ 5: inversion sign == exact determinant of its matrix
    for n in 1..=5 {
        for p in all_permutations(n) {
            let m: Vec<i64> = perm_matrix(&p).iter().map(|v| *v as i64).collect();
            if bareiss_det(&m, n) != Some(perm_sign(&p) as i128) {
                return false;
            }
        }
    }
    // Jacobi
    let ev = jacobi_eigenvalues(&[2.0, 1.0, 1.0, 2.0], 2);
    if (ev[0] - 1.0).abs() > 1e-14 || (ev[1] - 3.0).abs() > 1e-14 {
        return false;
    }
    let ev = jacobi_eigenvalues(&[1.0, 2.0, 2.0, 1.0], 2);
    if (ev[0] + 1.0).abs() > 1e-14 || (ev[1] - 3.0).abs() > 1e-14 {
        return false;
    }
    // trace and Frobenius norm are preserved on a 5×5 example; inertia agrees with LDLᵀ
    let mut rng = Rng::new(12345);
    let s = build::sym_indef_posdiag(&mut rng, 5, false);
    let ev = jacobi_eigenvalues(&s, 5);
    let tr: f64 = (0..5).map(|i| s[i * 5 + i]).sum();
    let fro: f64 = s.iter().map(|v| v * v).sum();
    if (ev.iter().sum::<f64>() - tr).abs() > 1e-12 * fro.sqrt().max(1.0) {
        return false;
    }
    if (ev.iter().map(|v| v * v).sum::<f64>() - fro).abs() > 1e-12 * fro.max(1.0) {
        return false;
    }
    if let Some(d) = ldlt(&s, 5) {
        let neg_d = d.iter().filter(|v| **v < 0.0).count();
        let neg_e = ev.iter().filter(|v| **v < 0.0).count();
        if neg_d != neg_e || neg_e == 0 {
            return false;
        }
    }
    // LU: reconstruct, solve, inverse, determinant
    let a = [
        -0.46519316, -3.1042875, -5.01766541, -1.86300107, 2.7692825, 2.3097699, -12.3854289, -8.70520295, 6.02201052, -6.71212792,
        -1.74683781, -6.08893455, -2.53731118, 2.72112893, 4.70204472, -1.03387848,
    ];
    let f = lu_pp(&a, 4);
    if f.singular || f.perm[0] != 2 {
        return false;
    }
    let mut l = identity(4);
    let mut u = vec![0.0; 16];
    for i in 0..4 {
        for j in 0..4 {
            if j < i {
                l[i * 4 + j] = f.lu[i * 4 + j];
            } else {
                u[i * 4 + j] = f.lu[i * 4 + j];
            }
        }
    }
    let prod = matmul_dd(&l, &u, 4, 4, 4);
    for i in 0..4 {
        for j in 0..4 {
            if (prod[i * 4 + j].f() - a[f.perm[i] * 4 + j]).abs() > 1e-14 * 13.0 {
                return false;
            }
        }
    }
    let b = [-4.13075599, -1.28124453, 4.65406058, 3.69106842];
    let x = f.solve(&b);
    let x_ref = [0.68581948, 0.33965616, 0.8063919, -0.69182874];
    for i in 0..4 {
        if (x[i] - x_ref[i]).abs() > 1e-7 {
            return false;
        }
    }
    let rc = residual_cols(&a, 4, &x, &b, 1);
    if rc[0].0 > 1e-14 {
        return false;
    }
    let inv = match f.inverse() {
        Some(v) => v,
        None => return false,
    };
    let r = residual_matrix(&a, 4, &inv, &identity(4), 4);
    if max_abs(&r) > 1e-14 {
        return false;
    }
    if (cond_inf(&identity(3), 3) - 1.0).abs() > 1e-15 || cond_inf(&[1.0, 2.0, 2.0, 4.0], 2).is_finite() {
        return false;
    }
    if (lu_pp(&[1.0, 2.0, 3.0, 4.0], 2).det() + 2.0).abs() > 1e-15 {
        return false;
    }
    // Cholesky on the textbook example
    let c = cholesky(&[4.0, 12.0, -16.0, 12.0, 37.0, -43.0, -16.0, -43.0, 98.0], 3);
    if c != Some(vec![2.0, 0.0, 0.0, 6.0, 1.0, 0.0, -8.0, 5.0, 3.0]) {
        return false;
    }
    if cholesky(&[1.0, 2.0, 2.0, 1.0], 2).is_some() {
        return false;
    }
    let sp = build::spd_gram(&mut rng, 6, 0.1);
    if !is_exactly_symmetric(&sp, 6) || cholesky(&sp, 6).is_none() || jacobi_eigenvalues(&sp, 6)[0] <= 0.0 {
        return false;
    }
    true
}
