//! Engine: case accounting, proptest driver, known-findings matcher, replay files, evidence writer,
//! fd redirection, poison allocator, watchdog.

use proptest::strategy::{Strategy, ValueTree};
use proptest::test_runner::{Config, RngAlgorithm, TestCaseError, TestError, TestRng, TestRunner};
use serde::de::DeserializeOwned;
use serde::Serialize;
use serde_json::{json, Value};
use std::collections::{BTreeMap, HashSet};
use std::io::Write;
use std::panic::{catch_unwind, AssertUnwindSafe};
use std::path::PathBuf;
use std::sync::atomic::{AtomicI32, Ordering};
use std::time::Instant;

pub mod alloc;
pub mod fuzz;
pub mod fuzzdrv;
pub mod fx;

#[derive(Clone, Copy, Debug, PartialEq, Eq)]
pub enum Tier {
    Quick,
    Thorough,
}

/// A failed oracle: `sig` identifies the root cause as specifically as the sub-check can,
/// `what` is a human-readable description of the failing values.
#[derive(Clone, Debug)]
pub struct Fail {
    pub sig: String,
    pub what: String,
}
pub type R = Result<(), Fail>;

pub fn fail<T>(sig: impl Into<String>, what: impl Into<String>) -> Result<T, Fail> {
    Err(Fail { sig: sig.into(), what: what.into() })
}

#[macro_export]
macro_rules! ensure {
    ($cond:expr, $sig:expr, $($fmt:tt)+) => {
        if !($cond) {
            return Err($crate::engine::Fail { sig: ($sig).to_string(), what: format!($($fmt)+) });
        }
    };
}

#[derive(Clone, Debug)]
pub struct Violation {
    pub sub: String,
    pub sig: String,
    pub what: String,
    pub replay: String,
}

#[derive(Clone, Debug)]
pub struct KnownFinding {
    pub property: String,
    pub signature: String,
    pub status: String,
    pub what: String,
}

pub struct Ctx {
    pub property: String,
    pub tier: Tier,
    pub seed: u64,
    pub root: PathBuf,
    /// accounting is suspended while proptest shrinks
    counting: bool,
    pub evaluations: u64,
    distinct: HashSet<u64>,
    pub classes: BTreeMap<String, u64>,
    samples: Vec<Value>,
    samples_per_sub: BTreeMap<String, usize>,
    pub worst: BTreeMap<String, f64>,
    pub violations: Vec<Violation>,
    pub known: Vec<KnownFinding>,
    pub known_hits: BTreeMap<String, u64>,
    pub notes: BTreeMap<String, Value>,
    pub exhaustive: Vec<String>,
    pub rule: String,
    pub assumptions: Vec<String>,
    pub subchecks: BTreeMap<String, u64>,
    pub regress_replayed: u64,
    pub fuzz_executions: u64,
    /// quick-tier work multiplier (see `scale`); a module may lower it for expensive cases
    pub qmult: u64,
    /// distinct non-trivial sweep points (conservative lower bound), see `Sketch`
    pub sketch: Option<std::sync::Arc<Sketch>>,
}

static REPORT_FD: AtomicI32 = AtomicI32::new(1);

/// Write a line to the real stdout (fd 1 is redirected to /dev/null to silence the library).
pub fn report(line: &str) {
    let fd = REPORT_FD.load(Ordering::SeqCst);
    let mut s = line.as_bytes().to_vec();
    s.push(b'\n');
    unsafe {
        let mut off = 0usize;
        while off < s.len() {
            let n = libc::write(fd, s[off..].as_ptr() as *const libc::c_void, s.len() - off);
            if n <= 0 {
                break;
            }
            off += n as usize;
        }
    }
}

/// dup stdout for our own reporting, then point fd 1 and 2 at /dev/null: `GLM::fit` println!s every
/// iteration and Adam/SGD eprintln! every step.
pub fn silence_library_output() {
    unsafe {
        let keep = libc::dup(1);
        if keep >= 0 {
            REPORT_FD.store(keep, Ordering::SeqCst);
        }
        let devnull = libc::open(b"/dev/null\0".as_ptr() as *const libc::c_char, libc::O_WRONLY);
        if devnull >= 0 {
            libc::dup2(devnull, 1);
            if std::env::var_os("VCHECK_KEEP_STDERR").is_none() {
                libc::dup2(devnull, 2);
            }
        }
    }
    std::panic::set_hook(Box::new(|_| {}));
}

/// Run `f`, turning a panic into `Err(message)`.
pub fn catch<T>(f: impl FnOnce() -> T) -> Result<T, String> {
    match catch_unwind(AssertUnwindSafe(f)) {
        Ok(v) => Ok(v),
        Err(e) => {
            let msg = if let Some(s) = e.downcast_ref::<&str>() {
                s.to_string()
            } else if let Some(s) = e.downcast_ref::<String>() {
                s.clone()
            } else {
                "<non-string panic>".to_string()
            };
            Err(msg)
        }
    }
}

/// Small deterministic hasher for case fingerprints (FNV-1a 64 with a final mix).
#[derive(Clone, Copy)]
pub struct Hx(pub u64);
impl Hx {
    pub fn new() -> Self {
        Hx(0xcbf29ce484222325)
    }
    #[inline]
    pub fn u(mut self, x: u64) -> Self {
        for b in x.to_le_bytes() {
            self.0 ^= b as u64;
            self.0 = self.0.wrapping_mul(0x100000001b3);
        }
        self
    }
    pub fn i(self, x: i64) -> Self {
        self.u(x as u64)
    }
    pub fn f(self, x: f64) -> Self {
        self.u(x.to_bits())
    }
    pub fn fs(mut self, xs: &[f64]) -> Self {
        self = self.u(xs.len() as u64);
        for x in xs {
            self = self.u(x.to_bits());
        }
        self
    }
    pub fn s(mut self, s: &str) -> Self {
        for b in s.as_bytes() {
            self.0 ^= *b as u64;
            self.0 = self.0.wrapping_mul(0x100000001b3);
        }
        self.u(0xff)
    }
    pub fn json<T: Serialize>(self, v: &T) -> Self {
        let s = serde_json::to_string(v).unwrap_or_default();
        self.s(&s)
    }
    pub fn finish(self) -> u64 {
        let mut z = self.0;
        z ^= z >> 33;
        z = z.wrapping_mul(0xff51afd7ed558ccd);
        z ^= z >> 33;
        z
    }
}

pub fn mix_seed(seed: u64, tag: &str, idx: u64) -> u64 {
    Hx::new().u(seed).s(tag).u(idx).finish()
}

impl Ctx {
    pub fn new(property: &str, tier: Tier, seed: u64, root: PathBuf) -> Self {
        let known = load_known(&root);
        Ctx {
            property: property.to_string(),
            tier,
            seed,
            root,
            counting: true,
            evaluations: 0,
            distinct: HashSet::new(),
            classes: BTreeMap::new(),
            samples: Vec::new(),
            samples_per_sub: BTreeMap::new(),
            worst: BTreeMap::new(),
            violations: Vec::new(),
            known,
            known_hits: BTreeMap::new(),
            notes: BTreeMap::new(),
            exhaustive: Vec::new(),
            rule: String::new(),
            assumptions: Vec::new(),
            subchecks: BTreeMap::new(),
            regress_replayed: 0,
            fuzz_executions: 0,
            qmult: quick_mult(),
            sketch: None,
        }
    }

    /// A fresh context for a worker thread (same configuration, empty accounting).
    pub fn fork(&self) -> Ctx {
        let mut c = Ctx::new(&self.property, self.tier, self.seed, self.root.clone());
        c.known = self.known.clone();
        c.qmult = self.qmult;
        c
    }

    /// Merge a worker's accounting into this context.
    pub fn merge(&mut self, o: Ctx) {
        self.evaluations += o.evaluations;
        self.distinct.extend(o.distinct);
        for (k, v) in o.classes {
            *self.classes.entry(k).or_insert(0) += v;
        }
        for s in o.samples {
            if self.samples.len() < 16 {
                self.samples.push(s);
            }
        }
        for (k, v) in o.worst {
            let e = self.worst.entry(k).or_insert(0.0);
            if v > *e || v.is_nan() {
                *e = v;
            }
        }
        for v in o.violations {
            if !self.violations.iter().any(|x| x.sig == v.sig) {
                self.violations.push(v);
            }
        }
        for (k, v) in o.known_hits {
            *self.known_hits.entry(k).or_insert(0) += v;
        }
        for (k, v) in o.subchecks {
            *self.subchecks.entry(k).or_insert(0) += v;
        }
        for (k, v) in o.notes {
            self.notes.insert(k, v);
        }
    }

    /// Distinct non-trivial cases: exact for cases accounted through `case`, plus the conservative
    /// sketch count for sweep points, minus cases present in both.
    pub fn distinct_count(&self) -> usize {
        match &self.sketch {
            None => self.distinct.len(),
            Some(sk) => {
                let both = self.distinct.iter().filter(|h| sk.contains(**h)).count();
                self.distinct.len() + sk.count() as usize - both
            }
        }
    }

    pub fn sketch(&mut self) -> std::sync::Arc<Sketch> {
        if self.sketch.is_none() {
            self.sketch = Some(std::sync::Arc::new(Sketch::new()));
        }
        self.sketch.as_ref().unwrap().clone()
    }

    pub fn quick(&self) -> bool {
        self.tier == Tier::Quick
    }

    /// Case count of a generated (proptest) sub-check: the thorough tier runs THOROUGH_MULT times the count the
    /// module states (sizes, ranges and budgets are untouched; dense sweeps and the statistical driver size themselves).
    pub fn thorough_cases(&self, cases: u64) -> u64 {
        if self.tier == Tier::Thorough {
            cases.saturating_mul(thorough_mult())
        } else {
            cases
        }
    }

    /// Pick the work size for the current tier.
    pub fn scale(&self, quick: u64, thorough: u64) -> u64 {
        match self.tier {
            // The quick counts written in the modules were sized on a heavily shared machine; on the
            // idle 16-core box they finish in 1-5 s, so the quick tier does QUICK_MULT times that work
            // (still fixed work, never above the thorough size).
            Tier::Quick => {
                if quick >= thorough {
                    quick
                } else {
                    (quick.saturating_mul(self.qmult)).min(thorough)
                }
            }
            Tier::Thorough => thorough,
        }
    }

    /// Account one generated case. `hash` is the fingerprint of the canonical case encoding.
    pub fn case(&mut self, sub: &str, class: &str, nontrivial: bool, hash: u64) {
        if !self.counting {
            return;
        }
        self.evaluations += 1;
        *self.subchecks.entry(sub.to_string()).or_insert(0) += 1;
        *self.classes.entry(format!("{}:{}", sub, class)).or_insert(0) += 1;
        if nontrivial {
            self.distinct.insert(case_fingerprint(sub, hash));
        }
    }

    /// Additional class label for the current case (does not count an evaluation).
    pub fn label(&mut self, sub: &str, class: &str) {
        if !self.counting {
            return;
        }
        *self.classes.entry(format!("{}:{}", sub, class)).or_insert(0) += 1;
    }

    /// Keep a few written-out cases per sub-check for the evidence file.
    pub fn sample(&mut self, sub: &str, f: impl FnOnce() -> Value) {
        if !self.counting {
            return;
        }
        let n = self.samples_per_sub.entry(sub.to_string()).or_insert(0);
        if *n < 2 && self.samples.len() < 16 {
            *n += 1;
            let mut v = f();
            truncate_value(&mut v, 24);
            self.samples.push(json!({"subcheck": sub, "case": v}));
        }
    }

    /// Record the worst observed ratio value/bound for a tolerance.
    pub fn worst(&mut self, name: &str, ratio: f64) {
        if !self.counting {
            return;
        }
        let e = self.worst.entry(name.to_string()).or_insert(0.0);
        if ratio > *e {
            *e = ratio;
        }
    }

    pub fn note(&mut self, key: &str, v: Value) {
        self.notes.insert(key.to_string(), v);
    }

    pub fn is_open_known(&self, sig: &str) -> bool {
        self.known
            .iter()
            .any(|k| k.property == self.property && k.status == "open" && k.signature == sig)
    }

    /// Handle a failure: open known findings are tolerated (counted, KNOWN-FINDING printed once);
    /// anything else becomes a violation with a replay file. Returns true if it was tolerated.
    pub fn handle_fail<C: Serialize>(&mut self, sub: &str, f: &Fail, case: &C) -> bool {
        if self.is_open_known(&f.sig) {
            let n = self.known_hits.entry(f.sig.clone()).or_insert(0);
            *n += 1;
            return true;
        }
        if self.violations.iter().any(|v| v.sig == f.sig) {
            return false;
        }
        let replay = self.write_replay(sub, f, case);
        self.violations.push(Violation {
            sub: sub.to_string(),
            sig: f.sig.clone(),
            what: f.what.clone(),
            replay,
        });
        false
    }

    /// Record a violation whose replay already exists on disk (regression replays).
    pub fn violation_at(&mut self, sub: &str, f: &Fail, replay_path: &str) {
        if self.is_open_known(&f.sig) {
            *self.known_hits.entry(f.sig.clone()).or_insert(0) += 1;
            return;
        }
        if self.violations.iter().any(|v| v.sig == f.sig) {
            return;
        }
        self.violations.push(Violation {
            sub: sub.to_string(),
            sig: f.sig.clone(),
            what: f.what.clone(),
            replay: replay_path.to_string(),
        });
    }

    fn write_replay<C: Serialize>(&self, sub: &str, f: &Fail, case: &C) -> String {
        let dir = self.root.join("replays").join(&self.property);
        let _ = std::fs::create_dir_all(&dir);
        let cv = serde_json::to_value(case).unwrap_or(Value::Null);
        let h = Hx::new().s(&f.sig).json(&cv).finish();
        let name = format!("{}-{:016x}.json", sanitize(sub), h);
        let path = dir.join(name);
        let doc = json!({
            "property": self.property,
            "subcheck": sub,
            "signature": f.sig,
            "what": f.what,
            "seed": self.seed,
            "case": cv,
        });
        // several worker threads may shrink to the same minimal case: write to a private temporary
        // name and rename, so the file is never a mixture of two writers
        let tmp = dir.join(format!(".tmp-{:016x}-{:?}-{}", h, std::thread::current().id(), std::process::id()));
        if let Ok(mut fh) = std::fs::File::create(&tmp) {
            let _ = fh.write_all(serde_json::to_string_pretty(&doc).unwrap().as_bytes());
            drop(fh);
            let _ = std::fs::rename(&tmp, &path);
        }
        path.to_string_lossy().to_string()
    }

    /// Check a single enumerated (non-proptest) case.
    pub fn check_one<C: Serialize>(
        &mut self,
        sub: &str,
        case: &C,
        test: impl FnOnce(&mut Ctx, &C) -> R,
    ) {
        let r = match catch(AssertUnwindSafe(|| test(self, case))) {
            Ok(r) => r,
            Err(msg) => fail(format!("{}/{}/harness-panic", self.property, sub), format!("unexpected panic: {}", msg)),
        };
        if let Err(f) = r {
            self.handle_fail(sub, &f, case);
        }
    }

    /// Drive a proptest strategy through `test`, sequentially, `cases` cases.
    /// On failure the case is shrunk (only failures with the same signature count during
    /// shrinking) and recorded. Returns the number of cases run.
    pub fn run_prop<S, C>(
        &mut self,
        sub: &str,
        cases: u64,
        strat: S,
        test: impl Fn(&mut Ctx, &C) -> R,
    ) where
        S: Strategy<Value = C>,
        C: Serialize + Clone + std::fmt::Debug,
    {
        let cases = self.thorough_cases(cases);
        self.run_prop_raw(sub, cases, strat, test)
    }

    /// `run_prop` with exactly `cases` cases (no tier multiplier).
    fn run_prop_raw<S, C>(
        &mut self,
        sub: &str,
        cases: u64,
        strat: S,
        test: impl Fn(&mut Ctx, &C) -> R,
    ) where
        S: Strategy<Value = C>,
        C: Serialize + Clone + std::fmt::Debug,
    {
        let mut seed32 = [0u8; 32];
        let s = mix_seed(self.seed, &format!("{}/{}", self.property, sub), 0);
        for (i, b) in seed32.iter_mut().enumerate() {
            *b = (mix_seed(s, "k", i as u64 / 8) >> ((i % 8) * 8)) as u8;
        }
        let cfg = Config {
            cases: cases.min(u32::MAX as u64) as u32,
            failure_persistence: None,
            max_shrink_iters: 4096,
            max_global_rejects: 1 << 20,
            ..Config::default()
        };
        let mut runner = TestRunner::new_with_rng(cfg, TestRng::from_seed(RngAlgorithm::ChaCha, &seed32));
        let first_sig: std::cell::RefCell<Option<String>> = std::cell::RefCell::new(None);
        let this: std::cell::RefCell<&mut Ctx> = std::cell::RefCell::new(self);
        let res = runner.run(&strat, |c: C| {
            let mut guard = this.borrow_mut();
            let ctx: &mut Ctx = &mut **guard;
            let r = match catch(AssertUnwindSafe(|| test(ctx, &c))) {
                Ok(r) => r,
                Err(msg) => fail(
                    format!("{}/{}/harness-panic", ctx.property, sub),
                    format!("unexpected panic: {}", msg),
                ),
            };
            match r {
                Ok(()) => Ok(()),
                Err(f) => {
                    let mut fs = first_sig.borrow_mut();
                    if let Some(s0) = fs.as_ref() {
                        // shrinking: keep only the same root cause
                        if *s0 == f.sig {
                            Err(TestCaseError::fail(f.sig))
                        } else {
                            Ok(())
                        }
                    } else if ctx.is_open_known(&f.sig) {
                        ctx.handle_fail(sub, &f, &c);
                        Ok(())
                    } else {
                        *fs = Some(f.sig.clone());
                        ctx.counting = false;
                        Err(TestCaseError::fail(f.sig))
                    }
                }
            }
        });
        drop(this);
        self.counting = true;
        match res {
            Ok(()) => {}
            Err(TestError::Fail(_, minimal)) => {
                self.counting = false;
                let r = match catch(AssertUnwindSafe(|| test(self, &minimal))) {
                    Ok(r) => r,
                    Err(msg) => fail(
                        format!("{}/{}/harness-panic", self.property, sub),
                        format!("unexpected panic: {}", msg),
                    ),
                };
                self.counting = true;
                let f = match r {
                    Err(f) => f,
                    Ok(()) => Fail {
                        sig: first_sig.borrow().clone().unwrap_or_default(),
                        what: "failure did not reproduce on the shrunk case (non-deterministic oracle?)".into(),
                    },
                };
                self.handle_fail(sub, &f, &minimal);
            }
            Err(TestError::Abort(reason)) => {
                self.note(&format!("{}:aborted", sub), json!(reason.to_string()));
                report(&format!("INCONCLUSIVE property={} sub={} generator aborted: {}", self.property, sub, reason));
                INCONCLUSIVE.store(1, Ordering::SeqCst);
            }
        }
    }

    /// Parallel variant: `threads` independent proptest runners, each `cases/threads` cases with a
    /// seed derived from (seed, sub, thread index); accounting merged in thread order.
    pub fn run_prop_par<S, C, FS, FT>(&mut self, sub: &str, cases: u64, threads: usize, mk: FS, test: FT)
    where
        S: Strategy<Value = C>,
        C: Serialize + Clone + std::fmt::Debug,
        FS: Fn() -> S + Sync,
        FT: Fn(&mut Ctx, &C) -> R + Sync,
    {
        let threads = threads.max(1);
        let cases = self.thorough_cases(cases);
        let per = (cases + threads as u64 - 1) / threads as u64;
        let mut locals: Vec<Ctx> = (0..threads)
            .map(|t| {
                let mut c = self.fork();
                c.seed = mix_seed(self.seed, "thread", t as u64);
                c
            })
            .collect();
        std::thread::scope(|sc| {
            for c in locals.iter_mut() {
                let mk = &mk;
                let test = &test;
                sc.spawn(move || {
                    c.run_prop_raw(sub, per, mk(), |cx, v| test(cx, v));
                });
            }
        });
        for c in locals {
            self.merge(c);
        }
    }

    /// Draw `n` values from a strategy deterministically (for the parallel statistical driver).
    pub fn draw<S: Strategy>(&self, sub: &str, n: usize, strat: S) -> Vec<S::Value> {
        let mut seed32 = [0u8; 32];
        let s = mix_seed(self.seed, &format!("{}/{}/draw", self.property, sub), 0);
        for (i, b) in seed32.iter_mut().enumerate() {
            *b = (mix_seed(s, "k", i as u64 / 8) >> ((i % 8) * 8)) as u8;
        }
        let mut runner = TestRunner::new_with_rng(
            Config { failure_persistence: None, ..Config::default() },
            TestRng::from_seed(RngAlgorithm::ChaCha, &seed32),
        );
        (0..n)
            .filter_map(|_| strat.new_tree(&mut runner).ok().map(|t| t.current()))
            .collect()
    }

    /// Replay every committed regression case of this property (`regress/<ID>/*.json`).
    pub fn replay_regress(&mut self, replay: &dyn Fn(&mut Ctx, &str, Value) -> Option<R>) {
        let dir = self.root.join("regress").join(&self.property);
        let mut files: Vec<PathBuf> = match std::fs::read_dir(&dir) {
            Ok(rd) => rd.filter_map(|e| e.ok().map(|e| e.path())).filter(|p| p.extension().map(|e| e == "json").unwrap_or(false)).collect(),
            Err(_) => return,
        };
        files.sort();
        for p in files {
            let txt = match std::fs::read_to_string(&p) {
                Ok(t) => t,
                Err(_) => continue,
            };
            let doc: Value = match serde_json::from_str(&txt) {
                Ok(v) => v,
                Err(_) => continue,
            };
            let sub = doc["subcheck"].as_str().unwrap_or("").to_string();
            let case = doc["case"].clone();
            self.counting = false;
            let r = catch(AssertUnwindSafe(|| replay(self, &sub, case)));
            self.counting = true;
            self.regress_replayed += 1;
            match r {
                Ok(Some(Ok(()))) => {}
                Ok(Some(Err(f))) => self.violation_at(&sub, &f, &p.to_string_lossy()),
                Ok(None) => {
                    self.note(&format!("regress-unknown-sub:{}", p.display()), json!(sub));
                }
                Err(msg) => self.violation_at(
                    &sub,
                    &Fail { sig: format!("{}/{}/harness-panic", self.property, sub), what: msg },
                    &p.to_string_lossy(),
                ),
            }
        }
    }

    pub fn write_evidence(&self, wall_s: f64) {
        let dir = self.root.join("evidence");
        let _ = std::fs::create_dir_all(&dir);
        let mut cov = serde_json::Map::new();
        cov.insert("evaluations".into(), json!(self.evaluations));
        cov.insert("distinct_nontrivial".into(), json!(self.distinct_count()));
        cov.insert("distinct_nontrivial_exact_part".into(), json!(self.distinct.len()));
        cov.insert("distinct_nontrivial_sweep_part_lower_bound".into(), json!(self.sketch.as_ref().map(|s| s.count()).unwrap_or(0)));
        let rule = if self.sketch.is_some() {
            format!("{} [points of dense sweeps are not stored one by one: their distinct non-trivial count is a lower bound from a bitmap sketch, reported separately as distinct_nontrivial_sweep_part_lower_bound]", self.rule)
        } else {
            self.rule.clone()
        };
        cov.insert("rule".into(), json!(rule));
        cov.insert("samples".into(), json!(self.samples));
        cov.insert("exhaustive".into(), json!(false));
        cov.insert("exhaustive_subspaces".into(), json!(self.exhaustive));
        cov.insert("subchecks".into(), json!(self.subchecks));
        cov.insert("classes".into(), json!(self.classes));
        cov.insert(
            "worst_ratio_to_bound".into(),
            json!(self.worst.iter().map(|(k, v)| (k.clone(), fx::fj(*v))).collect::<BTreeMap<_, _>>()),
        );
        cov.insert("known_findings_tolerated".into(), json!(self.known_hits));
        cov.insert("regress_replayed".into(), json!(self.regress_replayed));
        cov.insert("fuzz_executions".into(), json!(self.fuzz_executions));
        cov.insert("notes".into(), json!(self.notes));
        cov.insert(
            "violations_detail".into(),
            json!(self
                .violations
                .iter()
                .map(|v| json!({"subcheck": v.sub, "signature": v.sig, "what": v.what, "replay": v.replay}))
                .collect::<Vec<_>>()),
        );
        let doc = json!({
            "property_id": self.property,
            "tier": if self.tier == Tier::Quick { "quick" } else { "thorough" },
            "seed": self.seed,
            "level": "exploration",
            "coverage": Value::Object(cov),
            "assumptions": self.assumptions,
            "wall_s": wall_s,
            "violations": self.violations.len(),
        });
        let path = dir.join(format!("{}.json", self.property));
        if let Ok(mut fh) = std::fs::File::create(&path) {
            let _ = fh.write_all(serde_json::to_string_pretty(&doc).unwrap().as_bytes());
            let _ = fh.write_all(b"\n");
        }
    }
}

pub static INCONCLUSIVE: AtomicI32 = AtomicI32::new(0);

/// Work multiplier of the quick tier (see `Ctx::scale`); `VCHECK_QUICK_MULT` overrides it.
pub fn thorough_mult() -> u64 {
    static M: std::sync::OnceLock<u64> = std::sync::OnceLock::new();
    *M.get_or_init(|| std::env::var("VCHECK_THOROUGH_MULT").ok().and_then(|s| s.parse().ok()).filter(|m| *m >= 1).unwrap_or(3))
}

pub fn quick_mult() -> u64 {
    static M: std::sync::OnceLock<u64> = std::sync::OnceLock::new();
    *M.get_or_init(|| std::env::var("VCHECK_QUICK_MULT").ok().and_then(|s| s.parse().ok()).filter(|m| *m >= 1).unwrap_or(4))
}

/// Conservative distinct counter for dense sweeps (10^7..10^10 points) where a hash set of every case
/// is not feasible: a 2^27-bit bitmap indexed by the case fingerprint. The number of set bits is a
/// lower bound on the number of distinct fingerprints inserted (collisions only undercount; the count
/// saturates at 1.3e8).
pub struct Sketch {
    bits: Vec<std::sync::atomic::AtomicU64>,
}
const SKETCH_WORDS: usize = 1 << 21;
impl Sketch {
    pub fn new() -> Self {
        Sketch { bits: (0..SKETCH_WORDS).map(|_| std::sync::atomic::AtomicU64::new(0)).collect() }
    }
    #[inline]
    pub fn insert(&self, h: u64) {
        let bit = (h >> 7) as usize & (SKETCH_WORDS * 64 - 1);
        self.bits[bit >> 6].fetch_or(1u64 << (bit & 63), Ordering::Relaxed);
    }
    #[inline]
    pub fn contains(&self, h: u64) -> bool {
        let bit = (h >> 7) as usize & (SKETCH_WORDS * 64 - 1);
        self.bits[bit >> 6].load(Ordering::Relaxed) & (1u64 << (bit & 63)) != 0
    }
    pub fn count(&self) -> u64 {
        self.bits.iter().map(|w| w.load(Ordering::Relaxed).count_ones() as u64).sum()
    }
}

/// Fingerprint used both by `Ctx::case` and by sweep accounting, so the two can be de-duplicated.
#[inline]
pub fn case_fingerprint(sub: &str, hash: u64) -> u64 {
    Hx::new().s(sub).u(hash).finish()
}

fn sanitize(s: &str) -> String {
    s.chars().map(|c| if c.is_ascii_alphanumeric() || c == '-' || c == '_' { c } else { '_' }).collect()
}

/// Shorten long arrays inside a sample so the evidence stays readable.
fn truncate_value(v: &mut Value, max: usize) {
    match v {
        Value::Array(a) => {
            if a.len() > max {
                let n = a.len();
                a.truncate(max);
                a.push(json!(format!("… ({} elements in total)", n)));
            }
            for x in a.iter_mut() {
                truncate_value(x, max);
            }
        }
        Value::Object(o) => {
            for (_, x) in o.iter_mut() {
                truncate_value(x, max);
            }
        }
        _ => {}
    }
}

fn load_known(root: &PathBuf) -> Vec<KnownFinding> {
    let p = root.join("known_findings.json");
    let txt = match std::fs::read_to_string(p) {
        Ok(t) => t,
        Err(_) => return vec![],
    };
    let doc: Value = match serde_json::from_str(&txt) {
        Ok(v) => v,
        Err(_) => return vec![],
    };
    let mut out = vec![];
    if let Some(arr) = doc["findings"].as_array() {
        for e in arr {
            out.push(KnownFinding {
                property: e["property"].as_str().unwrap_or("").to_string(),
                signature: e["signature"].as_str().unwrap_or("").to_string(),
                status: e["status"].as_str().unwrap_or("").to_string(),
                what: e["what"].as_str().unwrap_or("").to_string(),
            });
        }
    }
    out
}

/// Map items in parallel on `threads` workers; results in input order (deterministic).
pub fn par_map<T: Sync, U: Send>(items: &[T], threads: usize, f: impl Fn(usize, &T) -> U + Sync) -> Vec<U> {
    let n = items.len();
    let next = std::sync::atomic::AtomicUsize::new(0);
    let out: std::sync::Mutex<Vec<Option<U>>> = std::sync::Mutex::new((0..n).map(|_| None).collect());
    std::thread::scope(|sc| {
        for _ in 0..threads.max(1).min(n.max(1)) {
            sc.spawn(|| loop {
                let i = next.fetch_add(1, Ordering::SeqCst);
                if i >= n {
                    break;
                }
                let r = f(i, &items[i]);
                out.lock().unwrap()[i] = Some(r);
            });
        }
    });
    out.into_inner().unwrap().into_iter().map(|x| x.unwrap()).collect()
}

/// Global watchdog: a check that exceeds its budget is inconclusive (exit 2), never a violation.
pub fn start_watchdog(secs: u64, property: String) {
    std::thread::spawn(move || {
        std::thread::sleep(std::time::Duration::from_secs(secs));
        report(&format!("INCONCLUSIVE property={} watchdog after {} s", property, secs));
        std::process::exit(2);
    });
}

pub fn decode<C: DeserializeOwned>(v: Value) -> Option<C> {
    serde_json::from_value(v).ok()
}

pub struct Timer(Instant);
impl Timer {
    pub fn start() -> Self {
        Timer(Instant::now())
    }
    pub fn secs(&self) -> f64 {
        self.0.elapsed().as_secs_f64()
    }
}
