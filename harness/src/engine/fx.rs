//! JSON encoding of f64 values that survives a round trip: finite values as JSON numbers
//! (serde_json with `float_roundtrip`), non-finite ones as the strings "NaN", "inf", "-inf".
//! Use with `#[serde(with = "fx::f")]`, `fx::v` (Vec<f64>), `fx::vv` (Vec<Vec<f64>>).

use serde_json::{json, Value};

pub fn fj(x: f64) -> Value {
    if x.is_nan() {
        json!("NaN")
    } else if x == f64::INFINITY {
        json!("inf")
    } else if x == f64::NEG_INFINITY {
        json!("-inf")
    } else {
        json!(x)
    }
}

pub fn jf(v: &Value) -> Option<f64> {
    match v {
        Value::Number(n) => n.as_f64(),
        Value::String(s) => match s.as_str() {
            "NaN" => Some(f64::NAN),
            "inf" => Some(f64::INFINITY),
            "-inf" => Some(f64::NEG_INFINITY),
            _ => None,
        },
        _ => None,
    }
}

pub mod f {
    use super::*;
    use serde::{Deserialize, Deserializer, Serialize, Serializer};
    pub fn serialize<S: Serializer>(x: &f64, s: S) -> Result<S::Ok, S::Error> {
        fj(*x).serialize(s)
    }
    pub fn deserialize<'de, D: Deserializer<'de>>(d: D) -> Result<f64, D::Error> {
        let v = Value::deserialize(d)?;
        jf(&v).ok_or_else(|| serde::de::Error::custom("bad f64"))
    }
}

pub mod v {
    use super::*;
    use serde::{Deserialize, Deserializer, Serialize, Serializer};
    pub fn serialize<S: Serializer>(x: &Vec<f64>, s: S) -> Result<S::Ok, S::Error> {
        x.iter().map(|a| fj(*a)).collect::<Vec<_>>().serialize(s)
    }
    pub fn deserialize<'de, D: Deserializer<'de>>(d: D) -> Result<Vec<f64>, D::Error> {
        let v = Vec::<Value>::deserialize(d)?;
        v.iter().map(|a| jf(a).ok_or_else(|| serde::de::Error::custom("bad f64"))).collect()
    }
}

pub mod vv {
    use super::*;
    use serde::{Deserialize, Deserializer, Serialize, Serializer};
    pub fn serialize<S: Serializer>(x: &Vec<Vec<f64>>, s: S) -> Result<S::Ok, S::Error> {
        x.iter().map(|r| r.iter().map(|a| fj(*a)).collect::<Vec<_>>()).collect::<Vec<_>>().serialize(s)
    }
    pub fn deserialize<'de, D: Deserializer<'de>>(d: D) -> Result<Vec<Vec<f64>>, D::Error> {
        let v = Vec::<Vec<Value>>::deserialize(d)?;
        v.iter()
            .map(|r| r.iter().map(|a| jf(a).ok_or_else(|| serde::de::Error::custom("bad f64"))).collect())
            .collect()
    }
}
