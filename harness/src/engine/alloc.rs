//! Poison allocator: every fresh allocation is filled with 0xA5 so that output slots the library
//! creates with `set_len` over uninitialised memory and forgets to write are deterministic and
//! recognisable (as an f64 the pattern is about -1.2e-130, which no generator produces).

use std::alloc::{GlobalAlloc, Layout, System};

pub struct Poison;

pub const POISON_BITS: u64 = 0xA5A5_A5A5_A5A5_A5A5;

unsafe impl GlobalAlloc for Poison {
    unsafe fn alloc(&self, layout: Layout) -> *mut u8 {
        let p = System.alloc(layout);
        if !p.is_null() {
            std::ptr::write_bytes(p, 0xA5, layout.size());
        }
        p
    }
    unsafe fn dealloc(&self, ptr: *mut u8, layout: Layout) {
        System.dealloc(ptr, layout)
    }
    unsafe fn alloc_zeroed(&self, layout: Layout) -> *mut u8 {
        System.alloc_zeroed(layout)
    }
    unsafe fn realloc(&self, ptr: *mut u8, layout: Layout, new_size: usize) -> *mut u8 {
        let p = System.realloc(ptr, layout, new_size);
        if !p.is_null() && new_size > layout.size() {
            std::ptr::write_bytes(p.add(layout.size()), 0xA5, new_size - layout.size());
        }
        p
    }
}

pub fn is_poison(x: f64) -> bool {
    x.to_bits() == POISON_BITS
}
