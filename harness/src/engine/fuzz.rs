//! Support for libFuzzer targets: the target decodes bytes into the same case type the proptest
//! generators produce and calls the same oracle function; this module owns the per-process context,
//! silences the abort-on-any-panic hook that libfuzzer-sys installs, tolerates open known findings
//! (so a campaign is not stopped by a recorded defect) and, on an oracle failure, writes a replay
//! file in the same format as the proptest engine and aborts so that libFuzzer saves the input.

use super::{catch, Ctx, Fail, Tier, R};
use serde::Serialize;
use std::cell::RefCell;
use std::path::PathBuf;
use std::sync::Once;

static HOOK: Once = Once::new();

thread_local! {
    static CTX: RefCell<Option<Ctx>> = RefCell::new(None);
}

fn root() -> PathBuf {
    PathBuf::from(std::env::var("VCHECK_ROOT").unwrap_or_else(|_| "/verif".to_string()))
}

/// Run one decoded case through `check`. Never returns on an (unlisted) oracle failure.
pub fn run_case<C: Serialize>(property: &str, sub: &str, case: &C, check: impl FnOnce(&mut Ctx, &C) -> R) {
    HOOK.call_once(|| {
        // libfuzzer-sys aborts on *any* panic, including the expected ones observed with catch_unwind
        std::panic::set_hook(Box::new(|_| {}));
    });
    CTX.with(|cell| {
        let mut guard = cell.borrow_mut();
        if guard.is_none() {
            *guard = Some(Ctx::new(property, Tier::Thorough, 0, root()));
        }
        let ctx = guard.as_mut().unwrap();
        let r = match catch(std::panic::AssertUnwindSafe(|| check(ctx, case))) {
            Ok(r) => r,
            Err(msg) => Err(Fail { sig: format!("{}/{}/harness-panic", property, sub), what: format!("unexpected panic: {}", msg) }),
        };
        if let Err(f) = r {
            let tolerated = ctx.handle_fail(sub, &f, case);
            if !tolerated {
                let path = ctx.violations.last().map(|v| v.replay.clone()).unwrap_or_default();
                eprintln!("VIOLATION property={} replay={}", property, path);
                eprintln!("  signature={} :: {}", f.sig, f.what);
                std::process::abort();
            }
        }
    });
}
