//! Driver for coverage-guided campaigns (cargo-fuzz / libFuzzer, ASan on) used by thorough tiers.
//! Builds the target from /repo's current working tree, runs `jobs` independent libFuzzer processes
//! with fixed `-runs` (fixed work, not a time quota) from fresh corpus directories seeded with a few
//! valid inputs, and folds the outcome into the context: executions, coverage counters, violations
//! (the target writes a replay file in the engine's format and aborts), inconclusive outcomes
//! (build failure, libFuzzer timeout / out-of-memory) are never reported as violations.

use super::{report, Ctx, Fail, INCONCLUSIVE};
use serde_json::json;
use std::path::PathBuf;
use std::process::{Command, Stdio};
use std::sync::atomic::Ordering;

pub struct Campaign<'a> {
    pub target: &'a str,
    pub runs_per_job: u64,
    pub jobs: usize,
    pub max_len: usize,
    pub seeds: Vec<Vec<u8>>,
}

fn harness_dir(ctx: &Ctx) -> PathBuf {
    ctx.root.join("harness")
}

pub fn run(ctx: &mut Ctx, c: Campaign) {
    let hd = harness_dir(ctx);
    let sub = format!("fuzz-{}", c.target);
    // build
    let out = Command::new("cargo")
        .args(["+nightly", "fuzz", "build", c.target])
        .current_dir(&hd)
        .env("CARGO_NET_OFFLINE", "true")
        .stdin(Stdio::null())
        .output();
    let ok = matches!(&out, Ok(o) if o.status.success());
    if !ok {
        let msg = match out {
            Ok(o) => String::from_utf8_lossy(&o.stderr).lines().rev().take(12).collect::<Vec<_>>().join(" | "),
            Err(e) => e.to_string(),
        };
        report(&format!("INCONCLUSIVE property={} fuzz build of {} failed: {}", ctx.property, c.target, msg));
        ctx.note(&format!("{}:build", sub), json!("failed"));
        INCONCLUSIVE.store(1, Ordering::SeqCst);
        return;
    }
    let bin = hd.join("fuzz/target/x86_64-unknown-linux-gnu/release").join(c.target);
    let art = ctx.root.join("replays").join(&ctx.property).join("fuzz-artifacts");
    let _ = std::fs::create_dir_all(&art);
    let mut children = vec![];
    for j in 0..c.jobs {
        let corpus = hd.join("fuzz/corpus").join(format!("{}-{}-{}", c.target, ctx.seed, j));
        let _ = std::fs::remove_dir_all(&corpus);
        let _ = std::fs::create_dir_all(&corpus);
        for (i, s) in c.seeds.iter().enumerate() {
            let _ = std::fs::write(corpus.join(format!("seed{}", i)), s);
        }
        // libFuzzer: -seed=0 means random, so remap
        let seed = ((super::mix_seed(ctx.seed, c.target, j as u64) % 0x7fff_fffe) + 1) as u32;
        // stderr goes to a file, not a pipe: the jobs print a status line for every new input, and a full pipe that
        // is only drained when its turn comes would make the eight jobs run one after the other
        let logpath = hd.join("fuzz/corpus").join(format!("{}-{}-{}.log", c.target, ctx.seed, j));
        let logfile = std::fs::File::create(&logpath);
        let child = Command::new(&bin)
            .arg(&corpus)
            .arg(format!("-runs={}", c.runs_per_job))
            .arg(format!("-seed={}", seed))
            .arg("-len_control=0")
            .arg(format!("-max_len={}", c.max_len))
            .arg("-timeout=60")
            .arg("-rss_limit_mb=4096")
            .arg("-print_final_stats=1")
            .arg(format!("-artifact_prefix={}/", art.display()))
            .env("VCHECK_ROOT", &ctx.root)
            .env("ASAN_OPTIONS", "detect_leaks=0:abort_on_error=1")
            .stdin(Stdio::null())
            .stdout(Stdio::null())
            .stderr(match logfile {
                Ok(f) => Stdio::from(f),
                Err(_) => Stdio::piped(),
            })
            .spawn();
        children.push((j, corpus, child, logpath));
    }
    let mut total_execs: u64 = 0;
    let mut cov_max: u64 = 0;
    let mut ft_max: u64 = 0;
    let mut corpus_files: u64 = 0;
    for (j, corpus, child, logpath) in children {
        let child = match child {
            Ok(c) => c,
            Err(e) => {
                report(&format!("INCONCLUSIVE property={} cannot start fuzz target: {}", ctx.property, e));
                INCONCLUSIVE.store(1, Ordering::SeqCst);
                continue;
            }
        };
        let out = match child.wait_with_output() {
            Ok(o) => o,
            Err(_) => continue,
        };
        let mut err = String::from_utf8_lossy(&out.stderr).to_string();
        if let Ok(t) = std::fs::read(&logpath) {
            err.push_str(&String::from_utf8_lossy(&t));
        }
        let _ = std::fs::remove_file(&logpath);
        let mut execs = 0u64;
        for l in err.lines() {
            if let Some(r) = l.strip_prefix("stat::number_of_executed_units:") {
                execs = r.trim().parse().unwrap_or(0);
            }
            if l.starts_with('#') && l.contains(" cov: ") {
                let grab = |key: &str| -> u64 {
                    l.split(key).nth(1).and_then(|t| t.split_whitespace().next()).and_then(|t| t.parse().ok()).unwrap_or(0)
                };
                cov_max = cov_max.max(grab(" cov: "));
                ft_max = ft_max.max(grab(" ft: "));
                if execs == 0 {
                    // fall back to the running counter when final stats are missing (crash)
                    let n: u64 = l[1..].split_whitespace().next().and_then(|t| t.parse().ok()).unwrap_or(0);
                    execs = execs.max(n);
                }
            }
        }
        total_execs += execs;
        corpus_files += std::fs::read_dir(&corpus).map(|d| d.count() as u64).unwrap_or(0);
        let _ = std::fs::remove_dir_all(&corpus);
        if !out.status.success() {
            if let Some(vl) = err.lines().find(|l| l.starts_with("VIOLATION property=")) {
                let replay = vl.split("replay=").nth(1).unwrap_or("").trim().to_string();
                let (sig, what) = err
                    .lines()
                    .find(|l| l.trim_start().starts_with("signature="))
                    .map(|l| {
                        let l = l.trim_start().trim_start_matches("signature=");
                        let mut it = l.splitn(2, " :: ");
                        (it.next().unwrap_or("").to_string(), it.next().unwrap_or("").to_string())
                    })
                    .unwrap_or_default();
                ctx.violation_at(&sub, &Fail { sig, what }, &replay);
            } else if err.contains("libFuzzer: timeout") || err.contains("out-of-memory") || err.contains("libFuzzer: deadly signal") && err.contains("SIGKILL") {
                report(&format!("INCONCLUSIVE property={} fuzz job {} of {}: timeout / out-of-memory", ctx.property, j, c.target));
                INCONCLUSIVE.store(1, Ordering::SeqCst);
            } else {
                // crash without an oracle verdict: sanitizer report or abort inside the library
                let artifact = err
                    .lines()
                    .find(|l| l.contains("Test unit written to"))
                    .and_then(|l| l.split("Test unit written to").nth(1))
                    .map(|s| s.trim().to_string())
                    .unwrap_or_default();
                let head = err.lines().filter(|l| l.contains("ERROR") || l.contains("SUMMARY")).take(3).collect::<Vec<_>>().join(" | ");
                ctx.violation_at(
                    &sub,
                    &Fail { sig: format!("{}/{}/crash", ctx.property, sub), what: format!("fuzz target crashed without oracle verdict: {}", head) },
                    &artifact,
                );
            }
        }
    }
    ctx.note(
        &sub,
        json!({"engine": "libFuzzer (cargo-fuzz, ASan)", "jobs": c.jobs, "runs_per_job": c.runs_per_job, "executions": total_execs,
               "coverage_edges_max": cov_max, "features_max": ft_max, "final_corpus_files": corpus_files, "max_len": c.max_len}),
    );
    ctx.fuzz_executions += total_execs;
}
