#![no_main]
//! C15 libFuzzer target: bytes -> program of structural operations (the same decoder the proptest
//! sub-check `program/bytes` uses) -> lock-step interpreter against the Vec<Vec<f64>> model.
use libfuzzer_sys::fuzz_target;
use vcheck::props::c15::{check_program, ProgCase};
use vcheck::props::c15_model::decode_program;

fuzz_target!(|data: &[u8]| {
    let ops = decode_program(data, 200);
    if ops.is_empty() {
        return;
    }
    let c = ProgCase { focus: "fuzz".to_string(), ops, scale: 0 };
    vcheck::engine::fuzz::run_case("C15", "program/fuzz", &c, check_program);
});
