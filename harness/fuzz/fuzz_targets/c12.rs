#![no_main]
//! C12 libFuzzer target: bytes -> (kind, ownership, operator, shapes, salt) -> the same oracle as the
//! proptest check (NumPy-broadcast reference model, bit-exact).
use arbitrary::Unstructured;
use libfuzzer_sys::fuzz_target;
use vcheck::props::c12::{check, Case};

fuzz_target!(|data: &[u8]| {
    let mut u = Unstructured::new(data);
    let kind = u.int_in_range(0u8..=2).unwrap_or(0);
    let own = u.int_in_range(0u8..=3).unwrap_or(0);
    let op = u.int_in_range(0u8..=3).unwrap_or(0);
    let mut lr = u.int_in_range(1usize..=24).unwrap_or(1);
    let lc = u.int_in_range(1usize..=24).unwrap_or(1);
    let mut rr = u.int_in_range(1usize..=24).unwrap_or(1);
    let rc = u.int_in_range(1usize..=24).unwrap_or(1);
    let salt = u.arbitrary::<u64>().unwrap_or(0);
    if kind == 1 {
        rr = 1;
    }
    if kind == 2 {
        lr = 1;
    }
    let c = Case { kind, own, op, lr, lc, rr, rc, salt };
    vcheck::engine::fuzz::run_case("C12", "broadcast", &c, check);
});
