#![no_main]
//! C16 libFuzzer target: bytes -> (knots, ordinates, targets, mode, fills, checked) -> the same oracle
//! as the proptest check. Abscissae are built from positive increments (mostly strictly increasing; a
//! selector occasionally breaks monotonicity or the length so that the rejection clauses are reached),
//! targets are placed relative to the knots (knot, ±1 ulp, midpoint, beyond either end).
use arbitrary::Unstructured;
use libfuzzer_sys::fuzz_target;
use vcheck::props::c16::{check_as, Case};

fn next_up(x: f64) -> f64 {
    if x == 0.0 {
        return f64::from_bits(1);
    }
    let b = x.to_bits();
    f64::from_bits(if x > 0.0 { b + 1 } else { b - 1 })
}
fn next_down(x: f64) -> f64 {
    -next_up(-x)
}

fuzz_target!(|data: &[u8]| {
    let mut u = Unstructured::new(data);
    let n = u.int_in_range(2usize..=24).unwrap_or(2);
    let scale = [1e-9, 1e-3, 1.0, 1.0, 37.5, 1e6][u.int_in_range(0usize..=5).unwrap_or(2)];
    let mut x: Vec<f64> = Vec::with_capacity(n);
    let mut cur: f64 = [0.0, -1.0, 1e3, -1e6, 0.5][u.int_in_range(0usize..=4).unwrap_or(0)] * scale;
    for _ in 0..n {
        x.push(cur);
        let step = match u.int_in_range(0u8..=7).unwrap_or(0) {
            0 => 1.0,
            1 => 0.5,
            2 => 3.0,
            3 => 1e-3,
            4 => 1e3,
            5 => 0.1,
            6 => 7.25,
            _ => 1e-5,
        };
        cur += step * scale;
    }
    let ypool = [0.0, -0.0, 1.0, -1.0, 2.5, -7.0, 1e10, -1e10, 1e-10, 3.0, 3.0, 1e150, -1e-150, 0.1, 100.0, -0.3];
    let mut y: Vec<f64> = (0..n).map(|_| ypool[u.int_in_range(0usize..=15).unwrap_or(2)]).collect();
    // occasionally break the preconditions the checked variant must reject
    match u.int_in_range(0u8..=15).unwrap_or(0) {
        0 => {
            let i = u.int_in_range(0..=n - 2).unwrap_or(0);
            x.swap(i, i + 1);
        }
        1 => {
            y.pop();
        }
        2 => {
            y.push(1.0);
        }
        _ => {}
    }
    let nt = u.int_in_range(1usize..=12).unwrap_or(1);
    let (x0, xl) = (x[0].min(x[x.len() - 1]), x[0].max(x[x.len() - 1]));
    let range = (xl - x0).abs().max(scale);
    let mut t = Vec::with_capacity(nt);
    for _ in 0..nt {
        let i = u.int_in_range(0..=x.len() - 1).unwrap_or(0);
        let v = match u.int_in_range(0u8..=11).unwrap_or(0) {
            0 => x[i],
            1 => next_up(x[i]),
            2 => next_down(x[i]),
            3 => 0.5 * (x[i] + x[(i + 1).min(x.len() - 1)]),
            4 => x[i] + 0.25 * (x[(i + 1).min(x.len() - 1)] - x[i]),
            5 => next_up(xl),
            6 => next_down(x0),
            7 => xl + 0.5 * range,
            8 => x0 - 0.5 * range,
            9 => xl + 1e3 * range,
            10 => x0 - 1e3 * range,
            _ => xl,
        };
        t.push(v);
    }
    let mode = u.int_in_range(0u8..=2).unwrap_or(0);
    let fills = [(-7.0, 9.0), (f64::NAN, 0.0), (0.0, -0.0), (f64::INFINITY, f64::NEG_INFINITY), (5e-324, 1.0)];
    let (fill_l, fill_r) = fills[u.int_in_range(0usize..=4).unwrap_or(0)];
    let checked = u.arbitrary::<bool>().unwrap_or(true);
    let c = Case { x, y, t, mode, fill_l, fill_r, checked };
    vcheck::engine::fuzz::run_case("C16", "enumerated", &c, |ctx, c| check_as(ctx, "enumerated", c));
});
