#![no_main]
//! C18 libFuzzer target: bytes -> history of constructor / setter / update operations (total decoder
//! `History::from_bytes`) -> interpreter comparing the mutated object with a freshly constructed twin.
use libfuzzer_sys::fuzz_target;
use vcheck::props::c18::check_hist;
use vcheck::props::c18_model::History;

fuzz_target!(|data: &[u8]| {
    let h = History::from_bytes(data);
    vcheck::engine::fuzz::run_case("C18", "hist/fuzz", &h, check_hist);
});
